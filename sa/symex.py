"""E1/E2/E4 -- program model and path-sensitive provenance evaluator (DESIGN 3.1, 3.2, 3.4).

`Model(repo)` indexes modules, classes (with C3 MRO over repo classes), functions, imports,
module constants and alias families of read-only properties.
`Sym(model).run(mod, func_node, args)` enumerates the paths of a function (if/elif/else,
try/except, with, literal-unrolled for loops, other loops as zero-or-one abstract iteration) and
returns leaves: path conditions, final environment, ordered effects (calls, attribute stores,
yields) and the outcome (return term / raised exception / fall-through).

Terms are hashable nested tuples:
  ('c', v) constant | ('p', name) parameter | ('self',) | ('g', module, name) repo global |
  ('b', name) builtin/unknown global | ('ext', dotted) imported external name |
  ('attr', base, name) | ('call', f, args, kwargs) | ('bin', op, a, b) | ('un', op, a) |
  ('cmp', op, a, b) | ('and', ts) | ('or', ts) | ('not', t) | ('sub', base, idx) |
  ('slice', lo, hi, step) | ('tuple', ts) | ('list', ts) | ('dict', kvs) | ('ite', c, a, b) |
  ('str',) formatted string | ('lambda', params, body) | ('gen', elt, var, iter) | ('unk', text)
"""
import ast
import itertools

MAX_PATHS = 3000

BINOPS = {ast.Add: '+', ast.Sub: '-', ast.Mult: '*', ast.Div: '/', ast.FloorDiv: '//', ast.Mod: '%', ast.Pow: '**',
          ast.BitOr: '|', ast.BitAnd: '&', ast.BitXor: '^', ast.LShift: '<<', ast.RShift: '>>', ast.MatMult: '@'}
CMPOPS = {ast.Eq: '==', ast.NotEq: '!=', ast.Lt: '<', ast.LtE: '<=', ast.Gt: '>', ast.GtE: '>=', ast.Is: 'is', ast.IsNot: 'is not',
          ast.In: 'in', ast.NotIn: 'not in'}
FLIP = {'<': '>', '<=': '>=', '>': '<', '>=': '<=', '==': '==', '!=': '!='}
NEGATE = {'<': '>=', '<=': '>', '>': '<=', '>=': '<', '==': '!=', '!=': '==', 'is': 'is not', 'is not': 'is', 'in': 'not in', 'not in': 'in'}


from .known_names import KNOWN, LEGACY_MODS


class TooManyPaths(Exception):
    pass


class MethodRef(tuple):
    """(module, defining class, function) of an MRO lookup; remembers the class the lookup started from: the code runs for
    instances of THAT class, so self-calls inside it dispatch on it (a template method reaching the subclass's hooks)"""
    def __new__(cls, m, c, n, start=None):
        o = tuple.__new__(cls, (m, c, n))
        o.start = start if start is not None else c
        return o


# ======================================================================================
class Model:
    def __init__(s, repo):
        s._reassigned = {}
        s.repo = repo
        s.mods = {}
        for name, tree in repo.trees.items():
            s.mods[name] = s._index(name, tree)
        s._mro_cache = {}
        s.alias = s._alias_families()

    def _index(s, name, tree):
        d = dict(funcs={}, classes={}, imports={}, consts={}, tree=tree)

        def scan(body):
            for n in body:
                if isinstance(n, (ast.FunctionDef, ast.AsyncFunctionDef)):
                    d['funcs'][n.name] = n
                elif isinstance(n, ast.ClassDef):
                    d['classes'][n.name] = n
                elif isinstance(n, ast.ImportFrom):
                    for a in n.names:
                        tgt = a.asname or a.name
                        if n.level >= 1:
                            if n.module:
                                d['imports'][tgt] = ('g', n.module.split('.')[0], a.name)
                            else:
                                d['imports'][tgt] = ('mod', a.name)
                        elif n.module and n.module.split('.')[0] == 'auditok':
                            parts = n.module.split('.')
                            if len(parts) > 1:
                                d['imports'][tgt] = ('g', parts[1], a.name)
                            else:
                                d['imports'][tgt] = ('pkg', a.name)
                        else:
                            d['imports'][tgt] = ('ext', '%s.%s' % (n.module, a.name))
                elif isinstance(n, ast.Import):
                    for a in n.names:
                        d['imports'][a.asname or a.name.split('.')[0]] = ('ext', a.name)
                elif isinstance(n, ast.Assign) and len(n.targets) == 1 and isinstance(n.targets[0], ast.Name):
                    d['consts'][n.targets[0].id] = n.value
                elif isinstance(n, ast.Assign) and len(n.targets) == 1 and isinstance(n.targets[0], (ast.Tuple, ast.List)) and all(isinstance(t, ast.Name) for t in n.targets[0].elts):
                    # A, B, C = range(3)   /   A, B = "x", "y" : each name is bound to its element
                    names_ = [t.id for t in n.targets[0].elts]
                    vals_ = None
                    if isinstance(n.value, (ast.Tuple, ast.List)) and len(n.value.elts) == len(names_):
                        vals_ = list(n.value.elts)
                    elif isinstance(n.value, ast.Call) and isinstance(n.value.func, ast.Name) and n.value.func.id == 'range' and not n.value.keywords \
                            and 1 <= len(n.value.args) <= 2 and all(isinstance(a, ast.Constant) and isinstance(a.value, int) for a in n.value.args):
                        lo_, hi_ = (0, n.value.args[0].value) if len(n.value.args) == 1 else (n.value.args[0].value, n.value.args[1].value)
                        if hi_ - lo_ == len(names_):
                            vals_ = [ast.copy_location(ast.Constant(value=v_), n) for v_ in range(lo_, hi_)]
                    if vals_ is not None:
                        for nm_, v_ in zip(names_, vals_):
                            d['consts'][nm_] = v_
                elif isinstance(n, ast.Try):
                    scan(n.body)
                    for h in n.handlers:
                        scan(h.body)
                elif isinstance(n, ast.If):
                    scan(n.body)
                    scan(n.orelse)
        scan(tree.body)
        for x in ast.walk(tree):
            if isinstance(x, (ast.FunctionDef, ast.AsyncFunctionDef, ast.ClassDef)):
                x._home = name              # the module a definition lives in: lookups that start elsewhere (an import-back after a move) end here
        return d

    # ---- name resolution
    def resolve_global(s, mod, name):
        return s._canon_g(s._resolve_global(mod, name))

    def _canon_g(s, g):
        """a function or class that the rules know as <legacy module>.<name> and that now lives in a module added later (moved
        there, imported back or not) keeps its legacy identity ('g', <legacy module>, name); lookup() follows it to its new home"""
        if g[0] != 'g' or g[1] in LEGACY_MODS or g[1] not in s.mods:
            return g
        if not hasattr(s, '_legacy_owner'):
            own = {}
            for k in KNOWN:
                parts = k.split('.')
                own.setdefault(parts[1], set()).add(parts[0])
            s._legacy_owner = {n: next(iter(ms)) for n, ms in own.items() if len(ms) == 1}
        m0 = s._legacy_owner.get(g[2])
        if m0 and m0 in s.mods:
            d0 = s.mods[m0]
            if g[2] not in d0['funcs'] and g[2] not in d0['classes'] and g[2] not in d0['consts']:
                return ('g', m0, g[2])
        return g

    def _resolve_global(s, mod, name):
        d = s.mods[mod]
        if name in d['funcs'] or name in d['classes'] or name in d['consts']:
            return ('g', mod, name)
        if name in d['imports']:
            t = d['imports'][name]
            if t[0] == 'g':
                # follow re-exports
                if t[1] in s.mods:
                    d2 = s.mods[t[1]]
                    if t[2] not in d2['funcs'] and t[2] not in d2['classes'] and t[2] not in d2['consts'] and t[2] in d2['imports']:
                        return s.resolve_global(t[1], t[2])
                return t
            if t[0] == 'pkg':
                # from auditok import X : search the modules
                for m2, d2 in s.mods.items():
                    if m2 != '__init__' and (t[1] in d2['classes'] or t[1] in d2['funcs']):
                        return ('g', m2, t[1])
                return ('ext', 'auditok.' + t[1])
            return t
        return ('b', name)

    def lookup(s, g, depth=0):
        """('g', mod, name) -> ('func'|'class'|'const', node) or None"""
        if g[0] != 'g' or g[1] not in s.mods:
            return None
        d = s.mods[g[1]]
        if g[2] in d['funcs']:
            return ('func', d['funcs'][g[2]])
        if g[2] in d['classes']:
            return ('class', d['classes'][g[2]])
        if g[2] in d['consts']:
            return ('const', d['consts'][g[2]])
        if depth < 3:
            # not defined here any more: imported back from the module it was moved to, or the package's only definition of it
            t = d['imports'].get(g[2])
            if t and t[0] == 'g' and t[1] in s.mods:
                return s.lookup(t, depth + 1)
            hits = [(m_, k_) for m_, d_ in s.mods.items() if m_ not in LEGACY_MODS for k_ in ('funcs', 'classes') if g[2] in d_[k_]]
            if len(hits) == 1:
                return ('func' if hits[0][1] == 'funcs' else 'class', s.mods[hits[0][0]][hits[0][1]][g[2]])
        return None

    def reassigned(s, mod, name):
        """is the module-level name bound more than once (module-level rebinding, `global` in a function, augmented assignment)?"""
        key = (mod, name)
        if key not in s._reassigned:
            tree = s.mods[mod]['tree']
            n = 0
            for x in ast.walk(tree):
                if isinstance(x, (ast.Assign, ast.AugAssign, ast.AnnAssign)):
                    tg = x.targets if isinstance(x, ast.Assign) else [x.target]
                    for t in tg:
                        for y in ast.walk(t):
                            if isinstance(y, ast.Name) and y.id == name and x in tree.body:
                                n += 1
                elif isinstance(x, ast.Global) and name in x.names:
                    n += 2
            s._reassigned[key] = n > 1
        return s._reassigned[key]

    def tuple_fields(s, g):
        """field names, in order, of a typing.NamedTuple subclass / collections.namedtuple of the repository (None otherwise)"""
        lk = s.lookup(g) if g and g[0] == 'g' else None
        if lk and lk[0] == 'class' and any((isinstance(b, ast.Name) and b.id == 'NamedTuple') or (isinstance(b, ast.Attribute) and b.attr == 'NamedTuple') for b in lk[1].bases):
            return [n.target.id for n in lk[1].body if isinstance(n, ast.AnnAssign) and isinstance(n.target, ast.Name)]
        if lk and lk[0] == 'const' and isinstance(lk[1], ast.Call) and ast.unparse(lk[1].func).endswith('namedtuple') and len(lk[1].args) == 2:
            try:
                spec = ast.literal_eval(lk[1].args[1])
                return spec.replace(',', ' ').split() if isinstance(spec, str) else list(spec)
            except (ValueError, SyntaxError):
                return None
        return None

    def attr_stored(s, name):
        """is `<anything>.name` ever the target of an assignment in the package?"""
        if not hasattr(s, '_stored_attrs'):
            st = set()
            for d in s.mods.values():
                for x in ast.walk(d['tree']):
                    if isinstance(x, ast.Attribute) and isinstance(x.ctx, ast.Store):
                        st.add(x.attr)
            s._stored_attrs = st
        return name in s._stored_attrs

    def home(s, mod, name, depth=0):
        """(module, node) of the class or function that the top-level name `name` means in module `mod`: defined there, imported
        back from another module of the package, bound by a module-level alias (`f = _Helpers.f`), or -- when the module no
        longer knows the name at all -- the package's only definition of that name"""
        if mod in s.mods and depth < 4:
            g = s.resolve_global(mod, name)
            lk = s.lookup(g)
            if lk and lk[0] in ('func', 'class'):
                return getattr(lk[1], '_home', g[1]), lk[1]
            if lk and lk[0] == 'const' and not s.reassigned(g[1], g[2]):
                v = lk[1]
                if isinstance(v, ast.Name):
                    return s.home(g[1], v.id, depth + 1)
                if isinstance(v, ast.Attribute) and isinstance(v.value, ast.Name):
                    r = s.home(g[1], v.value.id, depth + 1)
                    if r and isinstance(r[1], ast.ClassDef):
                        fm = s.find_method(r[0], r[1], v.attr)
                        if fm:
                            return fm[0], fm[2]
                if isinstance(v, ast.Call) and isinstance(v.func, ast.Name) and v.func.id in ('staticmethod', 'classmethod') and len(v.args) == 1 and isinstance(v.args[0], ast.Name):
                    return s.home(g[1], v.args[0].id, depth + 1)
            if lk is not None or g[0] != 'b':
                return None
        hits = [(m, d[k][name]) for m, d in s.mods.items() for k in ('funcs', 'classes') if name in d[k]]
        return hits[0] if len(hits) == 1 else None

    def find_class(s, name):
        for m, d in s.mods.items():
            if name in d['classes']:
                return m, d['classes'][name]
        return None

    def bases(s, mod, cls):
        mod = getattr(cls, '_home', mod)
        out = []
        for b in cls.bases:
            if isinstance(b, ast.Name):
                g = s.resolve_global(mod, b.id)
                lk = s.lookup(g)
                if lk and lk[0] == 'class':
                    out.append((getattr(lk[1], '_home', g[1]), lk[1]))
        return out

    def mro(s, mod, cls):
        mod = getattr(cls, '_home', mod)
        key = (mod, cls.name)
        if key in s._mro_cache:
            return s._mro_cache[key]
        bs = s.bases(mod, cls)
        seqs = [list(s.mro(m, c)) for m, c in bs] + [list(bs)]
        res = [(mod, cls)]
        while True:
            seqs = [q for q in seqs if q]
            if not seqs:
                break
            for q in seqs:
                cand = q[0]
                if not any(any(cand[1] is x[1] for x in q2[1:]) for q2 in seqs):
                    break
            else:
                raise ValueError('inconsistent MRO for %s' % cls.name)
            res.append(cand)
            for q in seqs:
                if q[0][1] is cand[1]:
                    del q[0]
        s._mro_cache[key] = res
        return res

    def methods_of(s, cls):
        return {n.name: n for n in cls.body if isinstance(n, (ast.FunctionDef, ast.AsyncFunctionDef))}

    def find_method(s, mod, cls, name, skip_self=False):
        """MRO lookup -> (mod, class, funcdef) ; property setters are ignored (getter wins)"""
        for m, c in s.mro(mod, cls)[(1 if skip_self else 0):]:
            cands = [n for n in c.body if isinstance(n, ast.FunctionDef) and n.name == name]
            for n in cands:
                if not any(isinstance(dc, ast.Attribute) and dc.attr in ('setter', 'deleter') for dc in n.decorator_list):
                    return MethodRef(m, c, n, cls)
        return None

    def find_setter(s, mod, cls, name):
        for m, c in s.mro(mod, cls):
            for n in c.body:
                if isinstance(n, ast.FunctionDef) and n.name == name and any(isinstance(dc, ast.Attribute) and dc.attr == 'setter' for dc in n.decorator_list):
                    return m, c, n
        return None

    def is_property(s, fn):
        return any((isinstance(dc, ast.Name) and dc.id == 'property') for dc in fn.decorator_list)

    def subclasses(s, mod, cls):
        out = []
        for m, d in s.mods.items():
            for c in d['classes'].values():
                if c is not cls and any(x[1] is cls for x in s.mro(m, c)):
                    out.append((m, c))
        return out

    def is_abstract(s, mod, cls):
        """a class with an abstract method left (looked up through the MRO)"""
        names = set()
        for m, c in s.mro(mod, cls):
            names |= set(s.methods_of(c))
        for nm in names:
            r = s.find_method(mod, cls, nm)
            if r and any((isinstance(dc, ast.Name) and dc.id == 'abstractmethod') or (isinstance(dc, ast.Attribute) and dc.attr == 'abstractmethod') for dc in r[2].decorator_list):
                return True
        return False

    # ---- alias families: read-only properties that return another attribute of self
    def _alias_families(s):
        raw = {}
        for m, d in s.mods.items():
            for c in d['classes'].values():
                for n in c.body:
                    if isinstance(n, ast.FunctionDef) and s.is_property(n):
                        body = [x for x in n.body if not (isinstance(x, ast.Expr) and isinstance(x.value, ast.Constant))]
                        if len(body) == 1 and isinstance(body[0], ast.Return) and isinstance(body[0].value, ast.Attribute) \
                                and isinstance(body[0].value.value, ast.Name) and body[0].value.value.id == 'self':
                            raw.setdefault(n.name, set()).add(body[0].value.attr)
        alias = {}

        def canon(name, seen=()):
            if name in seen:
                return name.lstrip('_')
            tg = raw.get(name)
            if tg and len(tg) >= 1:
                # all getters of that name must agree on the canonical target
                cs = {canon(t, seen + (name,)) for t in tg}
                if len(cs) == 1:
                    return cs.pop()
                return name
            return name.lstrip('_')
        for name in raw:
            c = canon(name)
            if c != name:
                alias[name] = c
        return alias

    def canon_attr(s, name):
        """canonical role of an attribute name: sr/sampling_rate/_sampling_rate -> sampling_rate"""
        n = s.alias.get(name, name)
        return n.lstrip('_') if n.lstrip('_') in ROLE_WORDS else n


ROLE_WORDS = {'sampling_rate', 'sample_width', 'channels'}
ROLE_OF = {
    'sr': 'sampling_rate', 'sampling_rate': 'sampling_rate', 'srate': 'sampling_rate', 'getframerate': 'sampling_rate', 'frame_rate': 'sampling_rate',
    'setframerate': 'sampling_rate', 'rate': 'sampling_rate', '_sampling_rate': 'sampling_rate',
    'sw': 'sample_width', 'sample_width': 'sample_width', 'swidth': 'sample_width', 'getsampwidth': 'sample_width', 'setsampwidth': 'sample_width',
    '_sample_width': 'sample_width',
    'ch': 'channels', 'channels': 'channels', 'getnchannels': 'channels', 'setnchannels': 'channels', '_channels': 'channels',
}


# ======================================================================================
class Leaf:
    __slots__ = ('conds', 'env', 'effects', 'outcome', 'value', 'node', 'notes')

    def __init__(s):
        s.conds = []
        s.env = {}
        s.effects = []
        s.outcome = None
        s.value = None
        s.node = None
        s.notes = []

    def clone(s):
        l = Leaf()
        l.conds = list(s.conds)
        l.env = dict(s.env)
        l.effects = list(s.effects)
        l.outcome = s.outcome
        l.value = s.value
        l.node = s.node
        l.notes = list(s.notes)
        return l


class Sym:
    def __init__(s, model, inline=None, inline_depth=3, assume=None, tag_calls=None, inline_unknown=True, known=None):
        s.model = model
        s.known = known              # names NOT to inline (None: sa/known_names.KNOWN, the helpers the rules refer to by name)
        s.inline_unknown = inline_unknown
        s._inline_depth = 0
        s.tag_calls = tag_calls      # set of attribute names: calls x.<name>(...) get a site id as 5th element
        s.inline = inline            # predicate(term g) -> bool : inline calls to this repo function
        s.inline_depth = inline_depth
        s.assume = assume or {}      # text of condition -> bool (to prune paths, e.g. {'_WITH_PYDUB': False})
        s.counter = itertools.count()

    # ------------------------------------------------------------------ expressions
    def term(s, n, env, mod, cls=None):
        T = lambda x: s.term(x, env, mod, cls)
        if n is None:
            return None
        if isinstance(n, ast.Constant):
            return ('c', n.value)
        if isinstance(n, ast.Name):
            if n.id in env:
                return env[n.id]
            if n.id == 'self' and cls is not None:
                return ('self',)
            g = s.model.resolve_global(mod, n.id)
            if g[0] == 'g':
                # a module-level table of literals (tuple / list of constants, bound once) is the literal
                lk = s.model.lookup(g)
                if lk and lk[0] == 'const' and isinstance(lk[1], (ast.Tuple, ast.List)) and lk[1].elts and not s.model.reassigned(g[1], g[2]) \
                        and all(isinstance(x, (ast.Constant, ast.Tuple, ast.List, ast.Load, ast.UnaryOp, ast.USub)) for x in ast.walk(lk[1])):
                    return s.term(lk[1], {}, g[1], None)
                if lk and lk[0] == 'const' and isinstance(lk[1], (ast.Tuple, ast.List)) and lk[1].elts and not s.model.reassigned(g[1], g[2]) \
                        and all(isinstance(x, (ast.Constant, ast.Tuple, ast.List, ast.Load, ast.UnaryOp, ast.USub, ast.Name, ast.Attribute)) for x in ast.walk(lk[1])) and getattr(s, '_cc_depth', 0) < 4:
                    # ... also when its elements name constants (members of a str/int enum of the package, other module constants)
                    s._cc_depth = getattr(s, '_cc_depth', 0) + 1
                    try:
                        t_ = s.term(lk[1], {}, g[1], None)
                    finally:
                        s._cc_depth -= 1
                    if _all_const(t_):
                        return t_
            return g
        if isinstance(n, ast.Attribute):
            base = T(n.value)
            if base[0] == 'ext':
                return ('ext', base[1] + '.' + n.attr)
            if base[0] == 'mod':
                return s.model.resolve_global(base[1], n.attr) if base[1] in s.model.mods else ('ext', base[1] + '.' + n.attr)
            if base[0] == 'g':
                lk = s.model.lookup(base)
                if lk and lk[0] == 'class':
                    # class constant (own or inherited from a base class of the package)
                    try:
                        chain_ = s.model.mro(base[1], lk[1])
                    except ValueError:
                        chain_ = [(base[1], lk[1])]
                    for m_, c_ in chain_:
                        hit_ = [st for st in c_.body if isinstance(st, ast.Assign) and any(isinstance(t, ast.Name) and t.id == n.attr for t in st.targets)]
                        if not hit_:
                            continue
                        st = hit_[-1]
                        if len(hit_) == 1 and isinstance(st.value, ast.Constant):
                            if _is_enum(c_) and not _value_enum(c_):
                                break                    # a member of a plain Enum is not its value (it does not compare equal to it)
                            return ('c', st.value.value)  # a class constant; a member of a str / int enum compares and hashes as its value
                        if len(hit_) == 1 and _literal_table(st.value):
                            return s.term(st.value, {}, m_, None)
                        if len(hit_) == 1 and isinstance(st.value, (ast.Name, ast.Attribute)) and getattr(s, '_cc_depth', 0) < 4:
                            s._cc_depth = getattr(s, '_cc_depth', 0) + 1       # X = _consts.X / X = _X : the constant it names
                            try:
                                v_ = s.term(st.value, {}, m_, None)
                            finally:
                                s._cc_depth -= 1
                            if v_[0] in ('g', 'c'):
                                return v_
                        break
            if base == ('self',) and s.known is not None and ('self.' + n.attr) in env and isinstance(n.ctx, ast.Load):
                return env['self.' + n.attr]          # deep mode: a field read after the path stored it is the stored value
            if base == ('self',) and s.known is not None and cls is not None and getattr(s, '_prop_depth', 0) < 3:
                # deep mode: a read of a property whose getter is a single `return <expr>` is that expression
                dm, dc = getattr(s, '_dyn', (mod, cls))
                r = s.model.find_method(dm, dc, n.attr) if dc is not None else s.model.find_method(mod, cls, n.attr)
                if r is not None and s.model.is_property(r[2]) and not any(isinstance(d, ast.Attribute) and d.attr == 'setter' for d in r[2].decorator_list):
                    body = [b for b in r[2].body if not (isinstance(b, ast.Expr) and isinstance(b.value, ast.Constant))]
                    if len(body) == 1 and isinstance(body[0], ast.Return) and body[0].value is not None:
                        s._prop_depth = getattr(s, '_prop_depth', 0) + 1
                        try:
                            env_p = {r[2].args.args[0].arg: ('self',)}
                            env_p.update({k_: v_ for k_, v_ in env.items() if isinstance(k_, str) and k_.startswith('self.')})
                            return s.term(body[0].value, env_p, r[0], r[1])
                        finally:
                            s._prop_depth -= 1
            if base[0] == 'call' and base[1][0] == 'g':
                rf_ = s._returned_fields(base)
                if rf_ and n.attr in rf_:
                    return ('sub', base, ('c', rf_.index(n.attr)))            # f(...).name where f returns NT(...): the component of that name
                flds = s.model.tuple_fields(base[1])
                if flds and n.attr in flds and not any(a_[0] == 'star' for a_ in base[2]) and not any(k_ == '**' for k_, _ in base[3]):
                    byname = dict(zip(flds, base[2]))
                    byname.update({k_: v_ for k_, v_ in base[3] if k_ in flds})
                    if n.attr in byname:
                        return byname[n.attr]                    # NT(a=x, b=y).a is x
            if base == ('self',) and cls is not None:
                # a class-level table of literals read through self (never assigned on instances)
                dm, dc = getattr(s, '_dyn', (mod, cls))
                for m_, c_ in (s.model.mro(dm, dc) if dc is not None else []):
                    hit_ = [st for st in c_.body if isinstance(st, ast.Assign) and any(isinstance(t, ast.Name) and t.id == n.attr for t in st.targets)]
                    if hit_:
                        if len(hit_) == 1 and (_literal_table(hit_[0].value) or _type_table(hit_[0].value)) and not s.model.attr_stored(n.attr):
                            return s.term(hit_[0].value, {}, m_, None)
                        break
            return ('attr', base, n.attr)
        if isinstance(n, ast.BinOp):
            if isinstance(n.op, ast.Mod) and isinstance(n.left, ast.Constant) and isinstance(n.left.value, str):
                # printf-style formatting with simple directives is the str.format call with the same fields
                conv = _percent_to_format(n.left.value)
                if conv is not None:
                    tmpl, nfields = conv
                    rt = T(n.right)
                    args = rt[1] if rt[0] == 'tuple' else (rt,)
                    if len(args) == nfields and not any(a_[0] == 'star' for a_ in args):
                        return ('call', ('attr', ('c', tmpl), 'format'), tuple(args), ()) if nfields else ('c', tmpl)
            return ('bin', BINOPS.get(type(n.op), '?'), T(n.left), T(n.right))
        if isinstance(n, ast.UnaryOp):
            if isinstance(n.op, ast.Not):
                return ('not', T(n.operand))
            v = T(n.operand)
            if isinstance(n.op, ast.USub):
                if v[0] == 'c' and isinstance(v[1], (int, float)) and not isinstance(v[1], bool):
                    return ('c', -v[1])
                return ('un', '-', v)
            if isinstance(n.op, ast.UAdd):
                return v
            return ('un', '~', v)
        if isinstance(n, ast.BoolOp):
            return ('and' if isinstance(n.op, ast.And) else 'or', tuple(T(v) for v in n.values))
        if isinstance(n, ast.Compare):
            parts = []
            left = T(n.left)
            for op, r in zip(n.ops, n.comparators):
                rt = T(r)
                parts.append(('cmp', CMPOPS[type(op)], left, rt))
                left = rt
            return parts[0] if len(parts) == 1 else ('and', tuple(parts))
        if isinstance(n, ast.Call) and getattr(s, 'inline_unknown', False) and hasattr(s, '_mod') and s._mod == mod:
            fake = Leaf()
            fake.env = env
            tgt = s._inline_target(n, fake)
            if tgt is not None:
                res = s.inline_call(n, fake, tgt)
                if res is not None and len(res) == 1 and not res[0][2] and not res[0][0].conds and res[0][1] is not None \
                        and not any(e[0] in ('store', 'yield') for e in res[0][0].effects):
                    return res[0][1]
        if isinstance(n, ast.Call):
            f = T(n.func)
            args = []
            for a in n.args:
                if isinstance(a, ast.Starred):
                    sv = T(a.value)
                    ar = s._tuple_arity(sv)
                    nt_ = s.model.tuple_fields(sv[1]) if sv[0] == 'call' and sv[1][0] == 'g' else None
                    if sv[0] in ('tuple', 'list') and not any(x[0] == 'star' for x in sv[1]):
                        args.extend(sv[1])                      # f(*(a, b, c)) == f(a, b, c)
                    elif nt_ and not any(a_[0] == 'star' for a_ in sv[2]) and not any(k_ == '**' for k_, _ in sv[3]) and len(sv[2]) + len(sv[3]) == len(nt_) \
                            and {k_ for k_, _ in sv[3]} == set(nt_[len(sv[2]):]):
                        byname_ = dict(zip(nt_, sv[2]))
                        byname_.update(dict(sv[3]))
                        args.extend(byname_[f_] for f_ in nt_)   # f(*NT(a, b, c)) == f(a, b, c)
                    elif ar is not None:
                        args.extend(('sub', sv, ('c', i_)) for i_ in range(ar))     # f(*g()) with g always returning an n-tuple
                    else:
                        args.append(('star', sv))
                else:
                    args.append(T(a))
            kws = []
            for k in n.keywords:
                kv = T(k.value)
                if k.arg is None and kv[0] == 'dict' and all(kk[0] == 'c' and isinstance(kk[1], str) for kk, _ in kv[1]):
                    kws.extend((kk[1], vv) for kk, vv in kv[1])            # f(**{"a": x}) == f(a=x)
                else:
                    kws.append((k.arg if k.arg is not None else '**', kv))
            if f[0] == 'g' and getattr(s, '_cc_depth', 0) < 4:
                # a module-level name bound once to methodcaller(...) / attrgetter(...) / itemgetter(...) / partial(...): the callable it names
                lk_ = s.model.lookup(f)
                if lk_ and lk_[0] == 'const' and isinstance(lk_[1], ast.Call) and not s.model.reassigned(f[1], f[2]):
                    fn_ = lk_[1].func
                    nm_ = fn_.id if isinstance(fn_, ast.Name) else (fn_.attr if isinstance(fn_, ast.Attribute) else '')
                    if nm_ in ('methodcaller', 'attrgetter', 'itemgetter', 'partial'):
                        s._cc_depth = getattr(s, '_cc_depth', 0) + 1
                        try:
                            f = s.term(lk_[1], {}, f[1], None)
                        finally:
                            s._cc_depth -= 1
            if f[0] == 'call' and f[1][0] in ('ext', 'g', 'b') and len(args) == 1 and not kws and f[2] and f[2][0][0] == 'c' and isinstance(f[2][0][1], str):
                opn = term_name(f[1]).split('.')[-1]
                if opn == 'methodcaller' and f[2][0][1].isidentifier():
                    return ('call', ('attr', args[0], f[2][0][1]), tuple(f[2][1:]), tuple(f[3]))           # methodcaller("m", a)(o) is o.m(a)
                if opn == 'attrgetter' and len(f[2]) == 1 and not f[3] and all(p_.isidentifier() for p_ in f[2][0][1].split('.')):
                    r_ = args[0]
                    for p_ in f[2][0][1].split('.'):
                        r_ = ('attr', r_, p_)
                    return r_                                                                              # attrgetter("a.b")(o) is o.a.b
            if f[0] == 'ext' and f[1] in ('typing.cast', 'typing_extensions.cast') and len(args) == 2 and not kws:
                return args[1]                                                                             # typing.cast(T, x) is x
            if f[0] == 'ext' and f[1] in ('typing.cast', 'typing_extensions.cast') and len(args) == 1 and [k_ for k_, _ in kws] == ['val']:
                return kws[0][1]
            if f[0] == 'call' and f[1][0] in ('ext', 'g', 'b') and term_name(f[1]).split('.')[-1] == 'itemgetter' and len(f[2]) == 1 and not f[3] and len(args) == 1 and not kws:
                return ('sub', args[0], f[2][0])                                                           # itemgetter(k)(o) is o[k]
            if f[0] == 'call' and term_name(f[1]).split('.')[-1] == 'partial' and f[1][0] in ('ext', 'g', 'b') and f[2] and not any(a_[0] == 'star' for a_ in f[2]) and not any(k_ == '**' for k_, _ in f[3]):
                # functools.partial(g, *a, **k)(*b, **k2) is g(*a, *b, **{**k, **k2})
                merged = dict(f[3])
                merged.update(dict(kws))
                f, args, kws = f[2][0], list(f[2][1:]) + args, list(merged.items())
            if f[0] == 'b' and f[1] in ('tuple', 'list') and len(n.args) == 1 and not n.keywords and isinstance(n.args[0], ast.GeneratorExp):
                n.args[0]._consumed = True
                lit = s._unroll_comprehension(n.args[0], env, mod, cls)
                if lit is not None:
                    return (f[1], lit[1])                           # tuple(<f(x) for x in literal>) is the literal tuple
            if f[0] == 'b' and f[1] in ('tuple', 'list') and len(args) == 1 and not kws and args[0][0] in ('tuple', 'list') and not any(x[0] == 'star' for x in args[0][1]):
                return (f[1], args[0][1])
            if f[0] == 'attr' and f[2] == '_make' and len(args) == 1 and not kws and f[1][0] == 'g' and args[0][0] in ('tuple', 'list') and not any(x[0] == 'star' for x in args[0][1]):
                flds = s.model.tuple_fields(f[1])
                if flds and len(flds) == len(args[0][1]):
                    return ('call', f[1], tuple(args[0][1]), ())                     # NT._make((a, b)) is NT(a, b)
            if f[0] == 'attr' and f[2] == '_asdict' and not args and not kws and f[1][0] == 'call' and f[1][1][0] == 'g':
                flds = s.model.tuple_fields(f[1][1])
                if flds and not any(a_[0] == 'star' for a_ in f[1][2]) and not any(k_ == '**' for k_, _ in f[1][3]):
                    byname = dict(zip(flds, f[1][2]))
                    byname.update({k_: v_ for k_, v_ in f[1][3] if k_ in flds})
                    if len(byname) == len(flds):
                        return ('dict', tuple((('c', k_), byname[k_]) for k_ in flds))       # NT(...)._asdict() is the dict of its fields
            if f == ('b', 'format') and len(args) == 2 and not kws and args[1][0] == 'c' and isinstance(args[1][1], str):
                return ('call', ('attr', ('c', '{:%s}' % args[1][1]), 'format'), (args[0],), ())      # format(x, ".3f") == "{:.3f}".format(x)
            if f == ('b', 'getattr') and len(args) == 2 and not kws and args[1][0] == 'c' and isinstance(args[1][1], str) and args[1][1].isidentifier():
                return ('attr', args[0], args[1][1])                # getattr(x, "name") == x.name
            if f[0] == 'lambda' and not kws and len(args) == len(f[1]) and not any(a_[0] == 'star' for a_ in args):
                body = f[2]                                     # (lambda p: body)(a)  ==  body[p := a]
                for p_, a_ in zip(f[1], args):
                    body = _subst(body, ('lp', p_), a_)
                return body
            if s.tag_calls and f[0] == 'attr' and f[2] in s.tag_calls:
                return ('call', f, tuple(args), tuple(kws), (n.lineno, n.col_offset))
            return ('call', f, tuple(args), tuple(kws))
        if isinstance(n, ast.Subscript):
            bv, iv = T(n.value), T(n.slice)
            if iv[0] == 'c' and isinstance(iv[1], int) and not isinstance(iv[1], bool):
                nt_ = s._nt_as_tuple(bv)
                if nt_ is not None and -len(nt_[1]) <= iv[1] < len(nt_[1]):
                    return nt_[1][iv[1]]         # NT(a, b)[0] is a
            if bv[0] == 'dict' and iv[0] == 'c':
                hit = [vv for kk, vv in bv[1] if kk == iv]
                if len(hit) == 1:
                    return hit[0]                # {"k": v}["k"] is v
            return ('sub', bv, iv)
        if isinstance(n, ast.Slice):
            return ('slice', T(n.lower), T(n.upper), T(n.step))
        if isinstance(n, ast.Tuple):
            return ('tuple', tuple(T(e) for e in n.elts))
        if isinstance(n, ast.List):
            return ('list', tuple(T(e) for e in n.elts))
        if isinstance(n, ast.Set):
            return ('set', tuple(T(e) for e in n.elts))
        if isinstance(n, ast.Dict):
            return ('dict', tuple((T(k) if k is not None else ('c', '**'), T(v)) for k, v in zip(n.keys, n.values)))
        if isinstance(n, ast.IfExp):
            c, a, b = T(n.test), T(n.body), T(n.orelse)
            # canonical polarity: the condition of an 'ite' term is never negated
            while True:
                if c[0] == 'not':
                    c, a, b = c[1], b, a
                elif c[0] == 'cmp' and c[1] in ('is not', '!=', 'not in'):
                    c, a, b = ('cmp', {'is not': 'is', '!=': '==', 'not in': 'in'}[c[1]], c[2], c[3]), b, a
                else:
                    break
            # a condition over constants is decided here
            if c == ('c', True):
                return a
            if c in (('c', False), ('c', None)):
                return b
            if c[0] == 'cmp' and c[2][0] == 'c' and c[3][0] == 'c' and c[1] in ('is', '=='):
                x_, y_ = c[2][1], c[3][1]
                same = (x_ is y_) or (type(x_) == type(y_) and x_ == y_)
                return a if same else b
            return ('ite', c, a, b)
        if isinstance(n, ast.JoinedStr):
            # f"...{x:.3f}..." is "...{:.3f}...".format(x): the canonical form the rules read (positional fields, same specs)
            tmpl = []
            args = []
            ok_ = True
            for part in n.values:
                if isinstance(part, ast.Constant) and isinstance(part.value, str):
                    tmpl.append(part.value.replace('{', '{{').replace('}', '}}'))
                elif isinstance(part, ast.FormattedValue):
                    spec = ''
                    if part.format_spec is not None:
                        if all(isinstance(v, ast.Constant) for v in part.format_spec.values):
                            spec = ':' + ''.join(str(v.value) for v in part.format_spec.values)
                        else:
                            ok_ = False
                    conv = {-1: '', 115: '!s', 114: '!r', 97: '!a'}.get(part.conversion, '')
                    tmpl.append('{%s%s}' % (conv, spec))
                    args.append(T(part.value))
                else:
                    ok_ = False
            if ok_:
                if not args:
                    return ('c', ''.join(tmpl).replace('{{', '{').replace('}}', '}'))
                return ('call', ('attr', ('c', ''.join(tmpl)), 'format'), tuple(args), ())
            return ('str',)
        if isinstance(n, ast.Lambda):
            env2 = dict(env)
            ps = tuple(a.arg for a in n.args.args)
            for p in ps:
                env2[p] = ('lp', p)
            return ('lambda', ps, s.term(n.body, env2, mod, cls))
        if isinstance(n, (ast.ListComp, ast.SetComp, ast.DictComp)) or (isinstance(n, ast.GeneratorExp) and getattr(n, '_consumed', False)):
            # a comprehension over a literal sequence (also a module-level table) without a filter is the literal it builds
            lit = s._unroll_comprehension(n, env, mod, cls)
            if lit is not None:
                return lit
        if isinstance(n, (ast.GeneratorExp, ast.ListComp, ast.SetComp)):
            env2 = dict(env)
            gens = []
            for g in n.generators:
                it = s.term(g.iter, env2, mod, cls)
                var = ast.unparse(g.target)
                for nm in ast.walk(g.target):
                    if isinstance(nm, ast.Name):
                        env2[nm.id] = ('lp', nm.id)
                conds = tuple(s.term(c, env2, mod, cls) for c in g.ifs)
                gens.append((var, it, conds))
            kind = {ast.GeneratorExp: 'gen', ast.ListComp: 'listcomp', ast.SetComp: 'setcomp'}[type(n)]
            return (kind, s.term(n.elt, env2, mod, cls), tuple(gens))
        if isinstance(n, ast.DictComp):
            return ('unk', 'dictcomp')     # (not over a literal sequence: see _unroll_comprehension)
        if isinstance(n, ast.Starred):
            return ('star', T(n.value))
        if isinstance(n, (ast.Yield, ast.YieldFrom)):
            return ('yieldexpr', T(n.value) if n.value is not None else ('c', None))
        if isinstance(n, ast.NamedExpr):
            v_ = T(n.value)
            if isinstance(n.target, ast.Name):
                env[n.target.id] = v_          # (x := e) binds x for what follows (env is the path's own dictionary)
            return v_
        if isinstance(n, ast.Await):
            return T(n.value)
        return ('unk', ast.unparse(n)[:60])

    def _unroll_comprehension(s, n, env, mod, cls):
        if len(n.generators) != 1 or n.generators[0].ifs or n.generators[0].is_async:
            return None
        g = n.generators[0]
        it = s.term(g.iter, env, mod, cls)
        if it[0] not in ('tuple', 'list') or len(it[1]) > 40 or any(x[0] == 'star' for x in it[1]):
            return None
        out = []
        for el in it[1]:
            env2 = dict(env)
            if isinstance(g.target, ast.Name):
                env2[g.target.id] = el
            elif isinstance(g.target, (ast.Tuple, ast.List)) and all(isinstance(x, ast.Name) for x in g.target.elts):
                if el[0] in ('tuple', 'list') and len(el[1]) == len(g.target.elts):
                    for x, v in zip(g.target.elts, el[1]):
                        env2[x.id] = v
                else:
                    for i_, x in enumerate(g.target.elts):
                        env2[x.id] = ('sub', el, ('c', i_))
            else:
                return None
            if isinstance(n, ast.DictComp):
                out.append((s.term(n.key, env2, mod, cls), s.term(n.value, env2, mod, cls)))
            else:
                out.append(s.term(n.elt, env2, mod, cls))
        if isinstance(n, ast.DictComp):
            return ('dict', tuple(out))
        return ('list', tuple(out)) if isinstance(n, ast.ListComp) else ('tuple', tuple(out))

    # ------------------------------------------------------------------ statements
    def _tuple_arity(s, t):
        """n when the term is a call of a repository function whose every return statement returns an n-tuple literal"""
        if t[0] != 'call' or t[1][0] != 'g':
            return None
        lk = s.model.lookup(t[1])
        if not lk or lk[0] != 'func':
            return None
        ns = set()
        for r in ast.walk(lk[1]):
            if isinstance(r, ast.Return):
                if isinstance(r.value, ast.Tuple) and not any(isinstance(e, ast.Starred) for e in r.value.elts):
                    ns.add(len(r.value.elts))
                else:
                    return None
        return ns.pop() if len(ns) == 1 else None

    def _returned_fields(s, t):
        """field names when the term is a call of a repository function whose every return statement builds the same NamedTuple of
        the package (NT(...) or NT.<classmethod>(...)): f(...).name is then component index(name) of the tuple f returns"""
        if t[0] != 'call' or t[1][0] != 'g':
            return None
        lk = s.model.lookup(t[1])
        if not lk or lk[0] != 'func':
            return None
        fm = getattr(lk[1], '_home', t[1][1])
        seen = set()
        for r in ast.walk(lk[1]):
            if not isinstance(r, ast.Return):
                continue
            v = r.value
            if not isinstance(v, ast.Call):
                return None
            f = v.func
            cname = f.id if isinstance(f, ast.Name) else (f.value.id if isinstance(f, ast.Attribute) and isinstance(f.value, ast.Name) else None)
            if cname is None:
                return None
            g = s.model.resolve_global(fm, cname)
            lkc = s.model.lookup(g)
            if not lkc or lkc[0] != 'class' or not s.model.tuple_fields(g):
                return None
            if isinstance(f, ast.Attribute):
                mm = s.model.find_method(g[1], lkc[1], f.attr)
                if mm is None or not any(isinstance(d, ast.Name) and d.id == 'classmethod' for d in mm[2].decorator_list):
                    return None
                me = mm[2].args.args[0].arg if mm[2].args.args else None
                rets = [x for x in ast.walk(mm[2]) if isinstance(x, ast.Return)]
                if not rets or not all(isinstance(x.value, ast.Call) and isinstance(x.value.func, ast.Name) and x.value.func.id == me for x in rets):
                    return None
            seen.add(tuple(s.model.tuple_fields(g)))
        return list(seen.pop()) if len(seen) == 1 else None

    def run(s, mod, fn, args=None, cls=None, self_term=None, depth=0):
        """enumerate paths of function node `fn`; args: dict param -> term (default ('p', name))"""
        env = {}
        a = fn.args
        allp = [x.arg for x in a.posonlyargs + a.args] + ([a.vararg.arg] if a.vararg else []) + [x.arg for x in a.kwonlyargs] + ([a.kwarg.arg] if a.kwarg else [])
        for p in allp:
            env[p] = ('p', p)
        if cls is not None and allp and allp[0] == 'self':
            env[allp[0]] = self_term or ('self',)
        if args:
            env.update(args)
        l0 = Leaf()
        l0.env = env
        s._mod, s._cls, s._depth = mod, cls, depth
        par_ = getattr(fn, '_parent', None)
        s._defcls = par_ if isinstance(par_, ast.ClassDef) else cls          # the class whose body holds the code (super() starts after it)
        s._dyn = (mod, cls)          # the class of `self` for method / property resolution (kept through inlining: dynamic dispatch)
        s._npaths = 0
        leaves = s.block(fn.body, [l0])
        for l in leaves:
            if l.outcome is None:
                l.outcome = 'fall'
                l.value = ('c', None)
        return leaves

    def T(s, n, leaf):
        return s.term(n, leaf.env, s._mod, s._cls)

    def block(s, stmts, leaves):
        cur = leaves
        for st in stmts:
            nxt = []
            for l in cur:
                if l.outcome is not None:
                    nxt.append(l)
                else:
                    nxt += s.stmt(st, l)
            cur = nxt
            if len(cur) > MAX_PATHS:
                raise TooManyPaths('%d paths' % len(cur))
        return cur

    def cond_split(s, test, leaf):
        """-> (true leaves, false leaves) splitting and/or so that each leaf has atomic conditions"""
        if isinstance(test, ast.BoolOp):
            if isinstance(test.op, ast.And):
                T, F = [leaf], []
                for v in test.values:
                    nt = []
                    for q in T:
                        t, f = s.cond_split(v, q)
                        nt += t
                        F += f
                    T = nt
                return T, F
            T, F = [], [leaf]
            for v in test.values:
                nf = []
                for q in F:
                    t, f = s.cond_split(v, q)
                    T += t
                    nf += f
                F = nf
            return T, F
        if isinstance(test, ast.UnaryOp) and isinstance(test.op, ast.Not):
            t, f = s.cond_split(test.operand, leaf)
            return f, t
        if isinstance(test, ast.Compare) and len(test.ops) > 1:
            parts = []
            left = test.left
            for op, right in zip(test.ops, test.comparators):
                parts.append(ast.copy_location(ast.Compare(left=left, ops=[op], comparators=[right]), test))
                left = right
            return s.cond_split(ast.copy_location(ast.BoolOp(op=ast.And(), values=parts), test), leaf)
        ct = s.T(test, leaf)
        s.note_calls(test, leaf)
        txt = ast.unparse(test)
        known = s.assume.get(txt)
        if ct == ('c', True) or known is True:
            return [leaf], []
        if ct in (('c', False), ('c', None)) or known is False:
            return [], [leaf]
        # constant folding of comparisons: both sides constants (literals or module-level names bound once to a literal), or the same
        # pure term on both sides
        if ct[0] == 'cmp' and (ct[2][0] == 'g' or ct[3][0] == 'g'):
            def lit_(t_):
                if t_[0] == 'g':
                    lk_ = s.model.lookup(t_)
                    if lk_ and lk_[0] == 'const' and isinstance(lk_[1], ast.Constant) and not s.model.reassigned(t_[1], t_[2]):
                        return ('c', lk_[1].value)
                return t_
            ct2_ = ('cmp', ct[1], lit_(ct[2]), lit_(ct[3]))
            if ct2_[2][0] == 'c' and ct2_[3][0] == 'c':
                ct = ct2_                      # (only when the whole comparison becomes constant: a name compared with a variable stays a name)
        if ct[0] == 'cmp' and ct[2][0] == 'c' and ct[3][0] == 'c':
            a_, b_ = ct[2][1], ct[3][1]
            try:
                r_ = {'==': lambda: a_ == b_, '!=': lambda: a_ != b_, 'is': lambda: a_ is b_ or (a_ == b_ and type(a_) == type(b_)), 'is not': lambda: not (a_ is b_ or (a_ == b_ and type(a_) == type(b_))),
                      '<': lambda: a_ < b_, '<=': lambda: a_ <= b_, '>': lambda: a_ > b_, '>=': lambda: a_ >= b_}.get(ct[1], lambda: None)()
            except TypeError:
                r_ = None
            if r_ is True:
                return [leaf], []
            if r_ is False:
                return [], [leaf]
        if ct[0] == 'cmp' and ct[1] in ('is', 'is not', '==', '!=') and ((ct[2][0] in ('tuple', 'list', 'dict', 'set') and ct[3] == ('c', None)) or (ct[3][0] in ('tuple', 'list', 'dict', 'set') and ct[2] == ('c', None))):
            # a tuple / list / dict display is never None (a helper given a literal tuple where it tests `x is None`)
            return ([], [leaf]) if ct[1] in ('is', '==') else ([leaf], [])
        if ct[0] == 'cmp' and ct[2] == ct[3] and _pure(ct[2]):
            if ct[1] in ('==', '>=', '<=', 'is'):
                return [leaf], []
            if ct[1] in ('!=', '<', '>', 'is not'):
                return [], [leaf]
        # a pure condition already decided on this path keeps its value (no contradictory paths)
        if _pure(ct):
            for c0, t0, _ in leaf.conds:
                if c0 == ct:
                    return ([leaf], []) if t0 else ([], [leaf])
            # the same comparison written with the complementary operator (x is None / x is not None, a < b / a >= b)
            nt, nf = _norm_cmp(ct, True), _norm_cmp(ct, False)
            if nt is not None:
                for c0, t0, _ in leaf.conds:
                    n0 = _norm_cmp(c0, t0)
                    if n0 is None:
                        continue
                    if n0 == nt:
                        return [leaf], []
                    if n0 == nf:
                        return [], [leaf]
        a, b = leaf.clone(), leaf.clone()
        a.conds.append((ct, True, test))
        b.conds.append((ct, False, test))
        return [a], [b]

    def note_calls(s, expr, leaf):
        """record every call inside an expression as an effect, innermost first (evaluation order),
        then the evaluation of the whole expression ('eval')"""
        if expr is None:
            return
        for n in _calls_postorder(expr):
            t = s.T(n, leaf)
            if isinstance(n.func, ast.Name) and leaf.env.get(n.func.id, ('?',))[0] == 'lambda':
                # a call of a lambda held in a local / parameter: the calls of its (substituted) body happen here
                for x in reversed(list(walk(t))):
                    if x[0] == 'call':
                        leaf.effects.append(('call', x, None, n, len(leaf.conds)))
                continue
            leaf.effects.append(('call', t, None, n, len(leaf.conds)))
            if s.known is not None and t[0] == 'call' and ((t[1][0] == 'attr' and (t[1][1] == ('self',) or (t[1][1][0] == 'call' and t[1][1][1] == ('b', 'super')))) or any(a_ == ('self',) for a_ in t[2])):
                s._drop_forwards(leaf.env)          # a method of self that was not followed (or a callee given self) may store fields
        if not isinstance(expr, (ast.Constant, ast.Name)):
            leaf.effects.append(('eval', s.T(expr, leaf), None, expr, len(leaf.conds)))

    def _nt_as_tuple(s, val):
        """NT(a, b=c) of a package NamedTuple as the tuple of its components (None when the term is not such a construction)"""
        if val[0] == 'call' and val[1][0] == 'g' and len(val) >= 4:
            nt_ = s.model.tuple_fields(val[1])
            if nt_ and not any(a_[0] == 'star' for a_ in val[2]) and not any(k_ == '**' for k_, _ in val[3]) and len(val[2]) + len(val[3]) == len(nt_) \
                    and {k_ for k_, _ in val[3]} == set(nt_[len(val[2]):]):
                byname_ = dict(zip(nt_, val[2]))
                byname_.update(dict(val[3]))
                return ('tuple', tuple(byname_[f_] for f_ in nt_))
        return None

    def assign_target(s, tgt, val, leaf, node):
        if isinstance(tgt, ast.Name):
            leaf.env[tgt.id] = val
        elif isinstance(tgt, (ast.Tuple, ast.List)):
            val = s._nt_as_tuple(val) or val          # a, b = NT(x, y)
            if val[0] in ('tuple', 'list') and len(val[1]) == len(tgt.elts) and not any(isinstance(e, ast.Starred) for e in tgt.elts):
                for t, v in zip(tgt.elts, val[1]):
                    s.assign_target(t, v, leaf, node)
            else:
                for i, t in enumerate(tgt.elts):
                    if isinstance(t, ast.Starred):
                        s.assign_target(t.value, ('unk', 'starred'), leaf, node)
                    else:
                        s.assign_target(t, ('sub', val, ('c', i)), leaf, node)
        elif isinstance(tgt, ast.Attribute):
            base = s.T(tgt.value, leaf)
            leaf.effects.append(('store', ('attr', base, tgt.attr), val, node, len(leaf.conds)))
            if base == ('self',):
                leaf.env['self.' + tgt.attr] = val
            elif s.known is not None:
                leaf.env.pop('self.' + tgt.attr, None)       # a store through another reference may alias self
        elif isinstance(tgt, ast.Subscript):
            base = s.T(tgt.value, leaf)
            idx = s.T(tgt.slice, leaf)
            leaf.effects.append(('store', ('sub', base, idx), val, node, len(leaf.conds)))
            # dict item stores on a local dict literal: keep the dict up to date
            if isinstance(tgt.value, ast.Name) and tgt.value.id in leaf.env:
                cur = leaf.env[tgt.value.id]
                if cur[0] == 'dict':
                    kvs = [kv for kv in cur[1] if kv[0] != idx] + [(idx, val)]
                    leaf.env[tgt.value.id] = ('dict', tuple(kvs))
                else:
                    leaf.env[tgt.value.id] = ('upd', cur, idx, val)
        else:
            leaf.notes.append('unsupported target %s' % ast.unparse(tgt))

    # ------------------------------------------------------------------ inlining of helpers unknown to the rules
    def _inline_target(s, call, leaf):
        """(mod, cls, fn, bound-self?) if `call` targets a repo function/method that the rules do not know by name"""
        if not s.inline_unknown or s._inline_depth >= 3 or not isinstance(call, ast.Call):
            return None
        from .known_names import KNOWN
        f = call.func
        m = s.model
        tgt = None
        if isinstance(f, ast.Name) and f.id in leaf.env and leaf.env[f.id][0] == 'attr' and leaf.env[f.id][1] == ('self',) and leaf.env.get('self', ('self',)) == ('self',):
            # a bound method of self held in a local / parameter (handler passed to a helper): called like self.<name>(...)
            dm, dc = getattr(s, '_dyn', (s._mod, s._cls))
            r = m.find_method(dm, dc, leaf.env[f.id][2]) if dc is not None else None
            if r and not m.is_property(r[2]) and not any(isinstance(d, ast.Name) and d.id in ('staticmethod', 'classmethod') for d in r[2].decorator_list):
                tgt = (r[0], r[1], r[2], True, '%s.%s.%s' % (r[0], r[1].name, r[2].name))
        if isinstance(f, ast.Name) and f.id == 'len' and 'len' not in leaf.env and s.known is not None and len(call.args) == 1 and not call.keywords and isinstance(call.args[0], ast.Name) \
                and call.args[0].id == 'self' and leaf.env.get('self', ('self',)) == ('self',) and s._cls is not None:
            # deep mode: len(self) is self.__len__() of the object's class
            dm, dc = getattr(s, '_dyn', (s._mod, s._cls))
            r = m.find_method(dm, dc, '__len__') if dc is not None else None
            if r:
                call = ast.copy_location(ast.Call(func=ast.copy_location(ast.Attribute(value=call.args[0], attr='__len__', ctx=ast.Load()), call), args=[], keywords=[]), call)
                s._len_rewrite = getattr(s, '_len_rewrite', {})
                tgt = (r[0], r[1], r[2], True, '%s.%s.%s' % (r[0], r[1].name, r[2].name))
                if s._is_known(tgt):
                    return None
                if any(isinstance(x, (ast.Yield, ast.YieldFrom)) for x in ast.walk(r[2])):
                    return None
                return tgt + (call,)
        if isinstance(f, ast.Name) and f.id not in leaf.env:
            g = m.resolve_global(s._mod, f.id)
            lk = m.lookup(g)
            if lk and lk[0] == 'func':
                tgt = (g[1], None, lk[1], False, '%s.%s' % (g[1], lk[1].name))
        elif isinstance(f, ast.Attribute) and isinstance(f.value, ast.Call) and isinstance(f.value.func, ast.Name) and f.value.func.id == 'super' and not f.value.args \
                and getattr(s, 'inline_super', False) and getattr(s, '_defcls', None) is not None and leaf.env.get('self', ('self',)) == ('self',):
            # on request (typestate rules): super().m(...) is the next definition of m after the class that holds the running code, in the MRO of the object's class
            dm, dc = getattr(s, '_dyn', (s._mod, s._cls))
            try:
                chain_ = m.mro(dm, dc) if dc is not None else []
            except ValueError:
                chain_ = []
            idx_ = [i_ for i_, (_m, c_) in enumerate(chain_) if c_ is s._defcls]
            if idx_:
                for m_, c_ in chain_[idx_[0] + 1:]:
                    cands_ = [n_ for n_ in c_.body if isinstance(n_, ast.FunctionDef) and n_.name == f.attr and not any(isinstance(d_, ast.Attribute) and d_.attr in ('setter', 'deleter') for d_ in n_.decorator_list)]
                    if cands_:
                        if not m.is_property(cands_[0]) and not any(isinstance(d_, ast.Name) and d_.id in ('staticmethod', 'classmethod') for d_ in cands_[0].decorator_list):
                            tgt = (m_, c_, cands_[0], True, '%s.%s.%s' % (m_, c_.name, cands_[0].name))
                        break
        elif isinstance(f, ast.Attribute) and isinstance(f.value, ast.Name):
            if f.value.id == 'self' and s._cls is not None and leaf.env.get('self', ('self',)) == ('self',):
                dm, dc = getattr(s, '_dyn', (s._mod, s._cls))
                r = m.find_method(dm, dc, f.attr) if dc is not None else m.find_method(s._mod, s._cls, f.attr)
                if r and not m.is_property(r[2]):
                    static = any(isinstance(d, ast.Name) and d.id == 'staticmethod' for d in r[2].decorator_list)
                    tgt = (r[0], r[1], r[2], not static, '%s.%s.%s' % (r[0], r[1].name, r[2].name))
            else:
                g = m.resolve_global(s._mod, f.value.id) if f.value.id not in leaf.env else None
                if g and g[0] == 'mod' and g[1] in m.mods:
                    g2 = m.resolve_global(g[1], f.attr)          # helpers.f(...) through `from . import helpers`
                    lk2 = m.lookup(g2)
                    if lk2 and lk2[0] == 'func':
                        tgt = (g2[1], None, lk2[1], False, '%s.%s' % (g2[1], lk2[1].name))
                lk = m.lookup(g) if g else None
                if lk and lk[0] == 'class':
                    r = m.find_method(g[1], lk[1], f.attr)
                    if r and any(isinstance(d, ast.Name) and d.id == 'staticmethod' for d in r[2].decorator_list):
                        tgt = (r[0], r[1], r[2], False, '%s.%s.%s' % (r[0], r[1].name, r[2].name))
                    elif r and any(isinstance(d, ast.Name) and d.id == 'classmethod' for d in r[2].decorator_list) and len(r[2].decorator_list) == 1:
                        tgt = (r[0], r[1], r[2], ('classmethod', g), '%s.%s.%s' % (r[0], r[1].name, r[2].name))     # Cls.make(...): cls is that class
                    elif r and s._cls is not None and call.args and isinstance(call.args[0], ast.Name) and call.args[0].id == 'self' and leaf.env.get('self', ('self',)) == ('self',) \
                            and not m.is_property(r[2]) and not any(isinstance(d, ast.Name) and d.id in ('staticmethod', 'classmethod') for d in r[2].decorator_list):
                        dm, dc = getattr(s, '_dyn', (s._mod, s._cls))
                        try:
                            in_mro = dc is not None and any(c_ is lk[1] for _m, c_ in m.mro(dm, dc))
                        except ValueError:
                            in_mro = False
                        if in_mro:
                            # Base.method(self, ...): an explicit call of a base-class method on this object
                            tgt = (r[0], r[1], r[2], 'explicit-self', '%s.%s.%s' % (r[0], r[1].name, r[2].name))
        if tgt is None or s._is_known(tgt):
            return None
        fn = tgt[2]
        if any(isinstance(x, (ast.Yield, ast.YieldFrom)) for x in ast.walk(fn)):
            return None
        if any(k.arg is None for k in call.keywords):
            return None
        if any(isinstance(a, ast.Starred) for a in call.args) and s._pos_arg_terms(call, leaf) is None:
            return None
        return tgt

    @staticmethod
    def _drop_forwards(env):
        """forget what the path stored in fields of self (deep mode forwards stores to later loads): past a loop or a call
        that was not followed the stored value may be stale"""
        for k in [k for k in env if isinstance(k, str) and k.startswith('self.')]:
            del env[k]

    def _is_known(s, tgt):
        """is the callee one the rules refer to by name?  By its qualified name, or -- after a move -- as the same method now
        inherited from a base class it was pulled up into, or the same function / class in a module added later"""
        from .known_names import KNOWN, LEGACY_MODS
        K = KNOWN if s.known is None else s.known
        if not K:
            return False
        if tgt[4] in K:
            return True
        mod2, cls2, fn = tgt[0], tgt[1], tgt[2]
        if cls2 is None:
            return mod2 not in LEGACY_MODS and any(k.count('.') == 1 and k.split('.')[-1] == fn.name for k in K)
        for m_, c_ in s.model.subclasses(mod2, cls2):
            if '%s.%s.%s' % (m_, c_.name, fn.name) in K:
                r_ = s.model.find_method(m_, c_, fn.name)
                if r_ is not None and r_[2] is fn:          # the subclass inherits it (does not define its own)
                    return True
        return mod2 not in LEGACY_MODS and any(k.endswith('.%s.%s' % (cls2.name, fn.name)) for k in K)

    def _pos_arg_terms(s, call, leaf):
        """positional argument terms with `*x` expanded when x is a tuple of known length; None when a star cannot be expanded"""
        out = []
        for a in call.args:
            if isinstance(a, ast.Starred):
                sv = s.T(a.value, leaf)
                ar = s._tuple_arity(sv)
                if sv[0] in ('tuple', 'list') and not any(x[0] == 'star' for x in sv[1]):
                    out.extend(sv[1])
                elif ar is not None:
                    out.extend(('sub', sv, ('c', i_)) for i_ in range(ar))
                else:
                    return None
            else:
                out.append(s.T(a, leaf))
        return out

    def inline_call(s, call, leaf, tgt):
        """-> list of (leaf, value term | None, raised?)"""
        if len(tgt) == 6:
            call = tgt[5]                      # the call as rewritten by the target search (len(self) -> self.__len__())
            tgt = tgt[:5]
        mod2, cls2, fn, bound, _ = tgt
        mod2 = getattr(fn, '_home', mod2)          # the module whose names the body refers to (a moved helper keeps its legacy identity in terms)
        params = [a.arg for a in fn.args.posonlyargs + fn.args.args]
        env = {}
        if isinstance(bound, tuple) and bound[0] == 'classmethod' and params:
            env[params[0]] = bound[1]
            params = params[1:]
        elif bound and params:
            env[params[0]] = ('self',)
            params = params[1:]
        elif cls2 is not None and params and params[0] == 'self':
            return None
        argt = s._pos_arg_terms(call, leaf)
        if argt is None:
            return None
        if bound == 'explicit-self':
            argt = argt[1:]                      # Base.method(self, a, b): self is the first positional argument
        for a in call.args:
            s.note_calls(a.value if isinstance(a, ast.Starred) else a, leaf)
        for k in call.keywords:
            s.note_calls(k.value, leaf)
        kwt = {k.arg: s.T(k.value, leaf) for k in call.keywords}
        defaults = fn.args.defaults
        for i, pn in enumerate(params):
            if i < len(argt):
                env[pn] = argt[i]
            elif pn in kwt:
                env[pn] = kwt[pn]
            else:
                j = i - (len(params) - len(defaults))
                if j < 0:
                    return None
                env[pn] = s.term(defaults[j], {}, mod2, cls2)
        if fn.args.vararg:
            env[fn.args.vararg.arg] = ('tuple', tuple(argt[len(params):]))
        elif len(argt) > len(params):
            return None
        for a, d in zip(fn.args.kwonlyargs, fn.args.kw_defaults):
            env[a.arg] = kwt.get(a.arg, s.term(d, {}, mod2, cls2) if d is not None else ('unk', a.arg))
        named = set(params) | {a.arg for a in fn.args.kwonlyargs}
        extra_kw = [(k_, v_) for k_, v_ in kwt.items() if k_ not in named]
        if fn.args.kwarg:
            env[fn.args.kwarg.arg] = ('dict', tuple((('c', k_), v_) for k_, v_ in extra_kw))      # **kwargs of the helper: the keywords it was given
        elif extra_kw:
            return None
        inner = Leaf()
        inner.env = env
        same_self = bool(bound) and leaf.env.get('self', ('self',)) == ('self',)
        if s.known is not None and same_self:
            env.update({k_: v_ for k_, v_ in leaf.env.items() if isinstance(k_, str) and k_.startswith('self.')})
        inner.conds = list(leaf.conds)          # what the caller's path already decided stays decided inside the helper (no contradictory paths)
        save = (s._mod, s._cls, getattr(s, '_defcls', None))
        s._mod, s._cls = mod2, (cls2 if bound else (cls2 if cls2 is not None else None))
        s._defcls = cls2 if cls2 is not None else save[2]
        s._inline_depth += 1
        try:
            res = s.block(fn.body, [inner])
        finally:
            s._mod, s._cls, s._defcls = save
            s._inline_depth -= 1
        out = []
        base = len(leaf.conds)
        for r in res:
            l2 = leaf.clone()
            if s.known is not None:
                s._drop_forwards(l2.env)
                if same_self:
                    l2.env.update({k_: v_ for k_, v_ in r.env.items() if isinstance(k_, str) and k_.startswith('self.')})
            l2.conds += r.conds[base:]
            for e in r.effects:
                l2.effects.append(e[:4] + (e[4],))
            l2.notes += r.notes
            if r.outcome == 'raise':
                l2.outcome, l2.value, l2.node = 'raise', r.value, r.node
                out.append((l2, None, True))
            elif r.outcome == 'loop-back':
                # the helper's infinite loop goes round again: the path does not come back to the caller
                l2.outcome, l2.value, l2.node = 'loop-back', None, r.node
                out.append((l2, None, True))
            else:
                out.append((l2, r.value if r.outcome == 'return' else ('c', None), False))
        return out

    def _hoistable(s, st, leaf):
        """the first helper call nested in the statement's expression that is evaluated unconditionally, can be inlined, and has
        several paths (so it cannot be a term): it is computed into a temporary first (A-normal form)"""
        if not s.inline_unknown or s._inline_depth >= 3:
            return None
        if isinstance(st, (ast.Assign, ast.AnnAssign, ast.AugAssign, ast.Return, ast.Expr)):
            top = st.value
            direct = isinstance(st, (ast.Assign, ast.Return, ast.Expr))
        elif isinstance(st, ast.If):
            top, direct = st.test, False
        else:
            return None
        if top is None:
            return None
        found = []

        def rec(n, uncond):
            if found:
                return
            if isinstance(n, (ast.Lambda, ast.GeneratorExp, ast.ListComp, ast.SetComp, ast.DictComp, ast.Yield, ast.YieldFrom, ast.Await)):
                return
            if isinstance(n, ast.BoolOp):
                for i_, v in enumerate(n.values):
                    rec(v, uncond and i_ == 0)
                return
            if isinstance(n, ast.IfExp):
                rec(n.test, uncond)
                return
            for ch in ast.iter_child_nodes(n):
                rec(ch, uncond)
            if isinstance(n, ast.Call) and uncond and not found and not (direct and n is top):
                tgt = s._inline_target(n, leaf)
                if tgt is not None:
                    res = s.inline_call(n, leaf.clone(), tgt)
                    if res is not None and len(res) > 1:
                        found.append(n)
        rec(top, True)
        return found[0] if found else None

    def stmt(s, st, leaf):
        h = s._hoistable(st, leaf)
        if h is not None:
            import copy
            tmp = '__h%d' % next(s.counter)
            h._hoist_mark = True
            st2 = copy.deepcopy(st)
            del h._hoist_mark

            class R(ast.NodeTransformer):
                def visit_Call(self, n):
                    if getattr(n, '_hoist_mark', False):
                        return ast.copy_location(ast.Name(id=tmp, ctx=ast.Load()), n)
                    return self.generic_visit(n)
            if isinstance(st2, ast.If):
                st2.test = R().visit(st2.test)
                st2.body, st2.orelse = st.body, st.orelse
            else:
                st2.value = R().visit(st2.value)
            pre = ast.copy_location(ast.Assign(targets=[ast.copy_location(ast.Name(id=tmp, ctx=ast.Store()), st)], value=h), st)
            out = []
            for l in s.stmt(pre, leaf):
                if l.outcome is not None:
                    out.append(l)
                else:
                    out += s.stmt(st2, l)
            return out
        # a call of a helper the rules do not know, standing as a whole statement value, is inlined (all its paths)
        if isinstance(st, (ast.Expr, ast.Assign, ast.Return)) and isinstance(getattr(st, 'value', None), ast.Call):
            tgt = s._inline_target(st.value, leaf)
            if tgt is not None:
                res = s.inline_call(st.value, leaf, tgt)
                if res is not None:
                    out = []
                    for l2, v, raised in res:
                        if raised:
                            out.append(l2)
                        elif isinstance(st, ast.Expr):
                            out.append(l2)
                        elif isinstance(st, ast.Assign):
                            for t in st.targets:
                                s.assign_target(t, v, l2, st)
                            out.append(l2)
                        else:
                            l2.outcome, l2.value, l2.node = 'return', v, st
                            out.append(l2)
                    return out
        # `x = a if c else f()` / `return a if c else f()` where a branch performs a call with effects is a branch of the
        # control flow (the call happens on one side only); conditional expressions over pure values stay terms
        if isinstance(st, (ast.Return, ast.Assign)) and isinstance(getattr(st, 'value', None), ast.IfExp) and _has_effect_call(st.value.body, st.value.orelse):
            import copy
            T, F = s.cond_split(st.value.test, leaf)
            out = []
            for qs, br in ((T, st.value.body), (F, st.value.orelse)):
                st2 = copy.copy(st)
                st2.value = br
                for q in qs:
                    out += s.stmt(st2, q)
            return out
        if isinstance(st, ast.Expr) and isinstance(st.value, ast.Call) and isinstance(st.value.func, ast.Name) and leaf.env.get(st.value.func.id, ('?',))[0] == 'boundlocal':
            # add = items.append ... add(x)  is  items.append(x): a bound method of a local container held in a local
            _, owner_, meth_ = leaf.env[st.value.func.id]
            new_call = ast.Call(func=ast.Attribute(value=ast.Name(id=owner_, ctx=ast.Load()), attr=meth_, ctx=ast.Load()), args=st.value.args, keywords=st.value.keywords)
            new_st = ast.Expr(value=new_call)
            for x_ in (new_st, new_call, new_call.func, new_call.func.value):
                ast.copy_location(x_, st)
            return s.stmt(new_st, leaf)
        if isinstance(st, ast.Expr):
            if isinstance(st.value, ast.Constant):
                return [leaf]
            if isinstance(st.value, (ast.Yield, ast.YieldFrom)):
                s.note_calls(st.value.value, leaf)
                leaf.effects.append(('yield', s.T(st.value.value, leaf) if st.value.value is not None else ('c', None), None, st, len(leaf.conds)))
                return [leaf]
            # a conditional expression used as an argument of a call statement is a branch: f(a if c else b)
            if isinstance(st.value, ast.Call):
                ife = next((a for a in list(st.value.args) + [k.value for k in st.value.keywords] if isinstance(a, ast.IfExp)), None)
                if ife is not None:
                    def repl(node, by):
                        import copy
                        new = copy.copy(node)
                        new.args = [by if a is ife else a for a in node.args]
                        new.keywords = [ast.keyword(arg=k.arg, value=(by if k.value is ife else k.value)) for k in node.keywords]
                        return ast.copy_location(ast.Expr(value=ast.copy_location(new, node)), st)
                    T, F = s.cond_split(ife.test, leaf)
                    out = []
                    for q in T:
                        out += s.stmt(repl(st.value, ife.body), q)
                    for q in F:
                        out += s.stmt(repl(st.value, ife.orelse), q)
                    return out
            s.note_calls(st.value, leaf)
            v = st.value
            # local list literal built by append(): keep its elements (used for small tuples of parameters)
            if isinstance(v, ast.Call) and isinstance(v.func, ast.Attribute) and v.func.attr == 'append' and isinstance(v.func.value, ast.Name) \
                    and len(v.args) == 1 and not v.keywords and v.func.value.id in leaf.env and leaf.env[v.func.value.id][0] == 'list':
                cur = leaf.env[v.func.value.id]
                leaf.env[v.func.value.id] = ('list', cur[1] + (s.T(v.args[0], leaf),))
            # d.update(k=v, ...) / d.update({"k": v}) on a local dictionary: the same item stores
            if isinstance(v, ast.Call) and isinstance(v.func, ast.Attribute) and v.func.attr == 'update' and isinstance(v.func.value, ast.Name) and v.func.value.id in leaf.env \
                    and leaf.env[v.func.value.id][0] in ('dict', 'upd', 'call') and len(v.args) <= 1 and all(k.arg is not None for k in v.keywords):
                items = []
                if v.args:
                    at = s.T(v.args[0], leaf)
                    items = list(at[1]) if at[0] == 'dict' else None
                if items is not None:
                    items += [(('c', k.arg), s.T(k.value, leaf)) for k in v.keywords]
                    cur = leaf.env[v.func.value.id]
                    for kk, vv in items:
                        if cur[0] == 'dict':
                            cur = ('dict', tuple([kv for kv in cur[1] if kv[0] != kk] + [(kk, vv)]))
                        else:
                            cur = ('upd', cur, kk, vv)
                    leaf.env[v.func.value.id] = cur
            return [leaf]
        if isinstance(st, ast.Assign) and s.known is not None and len(st.targets) == 1 and isinstance(st.targets[0], ast.Attribute) and isinstance(st.targets[0].value, ast.Name) \
                and st.targets[0].value.id == 'self' and leaf.env.get('self', ('self',)) == ('self',) and s._cls is not None and s._inline_depth < 3:
            # deep mode: an assignment to a property of self runs the property's setter
            dm, dc = getattr(s, '_dyn', (s._mod, s._cls))
            r = s.model.find_setter(dm, dc, st.targets[0].attr) if dc is not None else None
            if r is not None:
                fake = ast.copy_location(ast.Call(func=ast.Name(id='__setter__', ctx=ast.Load()), args=[st.value], keywords=[]), st)
                res = s.inline_call(fake, leaf, (r[0], r[1], r[2], True, 'setter'))
                if res is not None:
                    return [l2 for l2, _, _ in res]
        if isinstance(st, ast.Assign) and len(st.targets) == 1 and isinstance(st.targets[0], ast.Name) and isinstance(st.value, ast.Attribute) and isinstance(st.value.value, ast.Name) \
                and st.value.attr in ('append', 'extend', 'update', 'add') and leaf.env.get(st.value.value.id, ('?',))[0] in ('list', 'dict', 'upd') and st.targets[0].id != st.value.value.id:
            leaf.env[st.targets[0].id] = ('boundlocal', st.value.value.id, st.value.attr)
            return [leaf]
        if isinstance(st, ast.Assign):
            s.note_calls(st.value, leaf)
            if isinstance(st.value, (ast.Yield, ast.YieldFrom)):
                leaf.effects.append(('yield', s.T(st.value.value, leaf), None, st, len(leaf.conds)))
                val = ('unk', 'sent')
            else:
                val = s.T(st.value, leaf)
            for t in st.targets:
                s.assign_target(t, val, leaf, st)
            return [leaf]
        if isinstance(st, ast.AnnAssign):
            if st.value is not None:
                s.note_calls(st.value, leaf)
                s.assign_target(st.target, s.T(st.value, leaf), leaf, st)
            return [leaf]
        if isinstance(st, ast.AugAssign):
            s.note_calls(st.value, leaf)
            cur = s.T(st.target, leaf)
            val = ('bin', BINOPS.get(type(st.op), '?'), cur, s.T(st.value, leaf))
            s.assign_target(st.target, val, leaf, st)
            return [leaf]
        if isinstance(st, ast.Return):
            s.note_calls(st.value, leaf)
            leaf.outcome = 'return'
            leaf.value = s.T(st.value, leaf) if st.value is not None else ('c', None)
            leaf.node = st
            return [leaf]
        if isinstance(st, ast.Raise):
            s.note_calls(st.exc, leaf)
            leaf.outcome = 'raise'
            leaf.value = s.T(st.exc, leaf) if st.exc is not None else ('unk', 're-raise')
            leaf.node = st
            return [leaf]
        if isinstance(st, ast.If):
            T, F = s.cond_split(st.test, leaf)
            return s.block(st.body, T) + s.block(st.orelse, F)
        if isinstance(st, ast.Pass):
            return [leaf]
        if isinstance(st, (ast.Break, ast.Continue)):
            leaf.outcome = 'break' if isinstance(st, ast.Break) else 'continue'
            leaf.node = st
            return [leaf]
        if isinstance(st, ast.For) and not st.orelse and isinstance(st.iter, ast.Call) and not st.iter.keywords and len(st.iter.args) >= 2 \
                and term_name(s.T(st.iter.func, leaf)).split('.')[-1] == 'chain' and not any(isinstance(a, ast.Starred) for a in st.iter.args) \
                and not any(isinstance(x, ast.Break) for b in st.body for x in ast.walk(b)):
            # for x in itertools.chain(A, B, ...): BODY   is   for x in A: BODY; for x in B: BODY; ...   (BODY has no break)
            import copy as _copy
            seq = []
            for a in st.iter.args:
                f2 = ast.For(target=_copy.deepcopy(st.target), iter=a, body=st.body, orelse=[])
                ast.copy_location(f2, st)
                ast.fix_missing_locations(f2)
                seq.append(f2)
            return s.block(seq, [leaf])
        if isinstance(st, ast.For):
            return s.for_loop(st, leaf)
        if isinstance(st, ast.While):
            return s.while_loop(st, leaf)
        if isinstance(st, ast.Try):
            return s.try_stmt(st, leaf)
        if isinstance(st, ast.With) and len(st.items) == 1 and st.items[0].optional_vars is None and isinstance(st.items[0].context_expr, ast.Call) \
                and term_name(s.T(st.items[0].context_expr.func, leaf)).split('.')[-1] == 'suppress' and st.items[0].context_expr.args and not st.items[0].context_expr.keywords:
            # `with contextlib.suppress(E1, E2): BODY` is `try: BODY / except (E1, E2): pass`
            ce = st.items[0].context_expr
            typ = ce.args[0] if len(ce.args) == 1 else ast.Tuple(elts=list(ce.args), ctx=ast.Load())
            handler = ast.ExceptHandler(type=typ, name=None, body=[ast.Pass()])
            tr = ast.Try(body=st.body, handlers=[handler], orelse=[], finalbody=[])
            for x in (handler, tr, handler.body[0], typ):
                ast.copy_location(x, st)
            ast.fix_missing_locations(tr)
            return s.stmt(tr, leaf)
        if isinstance(st, ast.With):
            for it in st.items:
                s.note_calls(it.context_expr, leaf)
                v = s.T(it.context_expr, leaf)
                leaf.effects.append(('with', v, None, st, len(leaf.conds)))
                if it.optional_vars is not None:
                    s.assign_target(it.optional_vars, ('enter', v), leaf, st)
            out = s.block(st.body, [leaf])
            for l in out:
                l.effects.append(('endwith', None, None, st, len(l.conds)))
            return out
        if isinstance(st, (ast.FunctionDef, ast.AsyncFunctionDef)):
            body = [b for b in st.body if not (isinstance(b, ast.Expr) and isinstance(b.value, ast.Constant))]
            a_ = st.args
            if len(body) == 1 and isinstance(body[0], ast.Return) and body[0].value is not None and not (a_.vararg or a_.kwarg or a_.kwonlyargs or a_.defaults or st.decorator_list) \
                    and not any(isinstance(x, (ast.Yield, ast.YieldFrom, ast.Lambda)) for x in ast.walk(st)):
                # `def f(x): return expr` is the lambda x: expr (free variables as bound at the definition)
                env2 = dict(leaf.env)
                ps = tuple(x.arg for x in a_.args)
                for p_ in ps:
                    env2[p_] = ('lp', p_)
                leaf.env[st.name] = ('lambda', ps, s.term(body[0].value, env2, s._mod, s._cls))
            else:
                leaf.env[st.name] = ('localfunc', st.name, id(st))
            leaf.notes.append(('localfunc', st))
            return [leaf]
        if isinstance(st, (ast.Import, ast.ImportFrom)):
            for a in st.names:
                leaf.env[a.asname or a.name.split('.')[0]] = ('ext', ((st.module + '.') if isinstance(st, ast.ImportFrom) and st.module else '') + a.name)
            return [leaf]
        if isinstance(st, ast.Assert):
            s.note_calls(st.test, leaf)
            return [leaf]
        if isinstance(st, ast.Delete):
            leaf.effects.append(('del', tuple(s.T(t, leaf) for t in st.targets), None, st, len(leaf.conds)))
            return [leaf]
        if isinstance(st, (ast.Global, ast.Nonlocal)):
            leaf.effects.append(('global', tuple(st.names), None, st, len(leaf.conds)))
            return [leaf]
        if isinstance(st, ast.ClassDef):
            return [leaf]
        if isinstance(st, ast.Match):
            # match on constants / alternatives of constants / wildcard (with optional guards) is an if/elif chain on `==` / `is`
            chain = s._match_as_if(st)
            if chain is not None:
                return s.stmt(chain, leaf)
        if isinstance(st, ast.Pass):
            return [leaf]
        # a statement the evaluator does not model must not be skipped silently: the function is not analysable (INCONCLUSIVE)
        raise TooManyPaths('unsupported statement %s at line %s' % (type(st).__name__, getattr(st, 'lineno', '?')))

    def _match_as_if(s, st):
        def test_of(pat):
            if isinstance(pat, ast.MatchValue):
                return ast.Compare(left=st.subject, ops=[ast.Eq()], comparators=[pat.value])
            if isinstance(pat, ast.MatchSingleton):
                return ast.Compare(left=st.subject, ops=[ast.Is()], comparators=[ast.Constant(value=pat.value)])
            if isinstance(pat, ast.MatchOr):
                parts = [test_of(p_) for p_ in pat.patterns]
                if any(x is None for x in parts):
                    return None
                return ast.BoolOp(op=ast.Or(), values=parts)
            if isinstance(pat, ast.MatchAs) and pat.pattern is None and pat.name is None:
                return ast.Constant(value=True)
            if isinstance(pat, ast.MatchClass) and not pat.patterns and not pat.kwd_patterns:
                return ast.Call(func=ast.Name(id='isinstance', ctx=ast.Load()), args=[st.subject, pat.cls], keywords=[])     # case int():
            return None
        orelse = []
        for case in reversed(st.cases):
            t = test_of(case.pattern)
            if t is None:
                return None
            if case.guard is not None:
                t = ast.BoolOp(op=ast.And(), values=[t, case.guard])
            node = ast.If(test=t, body=case.body, orelse=orelse)
            ast.copy_location(node, case.pattern)
            ast.fix_missing_locations(node)
            orelse = [node]
        return orelse[0] if orelse else None

    def _assigned_names(s, stmts, env=None):
        """names (re)bound in the statements, and local containers mutated in place; a local that merely ALIASES something else
        (detections = self._detections; detections.append(x)) is not rebound by mutating what it refers to"""
        out = set()
        mutated = set()
        for st in stmts:
            for n in ast.walk(st):
                if isinstance(n, ast.Name) and isinstance(n.ctx, ast.Store):
                    out.add(n.id)
                elif isinstance(n, ast.Call) and isinstance(n.func, ast.Attribute) and isinstance(n.func.value, ast.Name) \
                        and n.func.attr in ('append', 'extend', 'insert', 'pop', 'remove', 'clear', 'update', 'add'):
                    mutated.add(n.func.value.id)
        for nm in mutated - out:
            v = env.get(nm) if env is not None else None
            if v is None or v[0] in ('list', 'dict', 'tuple', 'upd', 'listcomp', 'setcomp', 'unk', 'loopvar'):
                out.add(nm)
        return out

    def _fusable(s, st, leaf):
        """statements equivalent to `for T in helper_generator(...): BODY` written as one loop, or None (sa/fuse.py)"""
        it = st.iter
        if not s.inline_unknown or s._inline_depth >= 3 or not isinstance(it, ast.Call):
            return None
        from .fuse import fuse, is_generator
        f = it.func
        m = s.model
        if isinstance(f, ast.Attribute) and isinstance(f.value, ast.Name) and f.value.id == 'self' and leaf.env.get('self', ('self',)) == ('self',):
            dm, dc = getattr(s, '_dyn', (s._mod, s._cls))
            r = m.find_method(dm, dc, f.attr) if dc is not None else None
            if r and r[0] == s._mod and is_generator(r[2]) and not m.is_property(r[2]):
                return fuse(st, r[2], it, True)
        elif isinstance(f, ast.Name) and f.id not in leaf.env:
            g = m.resolve_global(s._mod, f.id)
            lk = m.lookup(g)
            if lk and lk[0] == 'func' and g[1] == s._mod and is_generator(lk[1]):
                return fuse(st, lk[1], it, False)
        return None

    def for_loop(s, st, leaf):
        fused = s._fusable(st, leaf)
        if fused is not None:
            s._inline_depth += 1
            try:
                return s.block(fused, [leaf])
            finally:
                s._inline_depth -= 1
        s.note_calls(st.iter, leaf)
        it = s.T(st.iter, leaf)
        if it[0] == 'g':
            # a module-level constant that is a literal tuple / list is iterated like the literal (assigned once at module level)
            lk = s.model.lookup(it)
            if lk and lk[0] == 'const' and isinstance(lk[1], (ast.Tuple, ast.List)) and not s.model.reassigned(it[1], it[2]):
                it = s.term(lk[1], {}, it[1], None)
        if it[0] == 'call' and it[1][0] == 'attr' and it[1][2] in ('items', 'keys', 'values') and not it[2] and not it[3]:
            # iteration over the items / keys / values of a literal dictionary (also a module-level table, bound once): like the literal
            dt = it[1][1]
            if dt[0] == 'g':
                lk = s.model.lookup(dt)
                if lk and lk[0] == 'const' and isinstance(lk[1], ast.Dict) and not s.model.reassigned(dt[1], dt[2]) and all(k_ is not None for k_ in lk[1].keys):
                    dt = s.term(lk[1], {}, dt[1], None)
            if dt[0] == 'dict':
                it = ('tuple', tuple({'items': ('tuple', (kk, vv)), 'keys': kk, 'values': vv}[it[1][2]] for kk, vv in dt[1]))
        it = s._nt_as_tuple(it) or it              # for x in NT(a, b): over its components
        if it[0] in ('tuple', 'list') and len(it[1]) <= 8 and not st.orelse:
            cur = [leaf]
            for el in it[1]:
                nxt = []
                for l in cur:
                    if l.outcome is not None:
                        nxt.append(l)
                        continue
                    s.assign_target(st.target, el, l, st)
                    for r in s.block(st.body, [l]):
                        if r.outcome == 'continue':
                            r.outcome = None
                        nxt.append(r)
                cur = nxt
            for l in cur:
                if l.outcome == 'break':
                    l.outcome = None
            return cur
        # abstract loop: zero iterations, or one abstract iteration
        skip = leaf.clone()
        skip.effects.append(('loop-skip', it, None, st, len(skip.conds)))
        one = leaf.clone()
        s._drop_forwards(one.env)
        for nm in s._assigned_names(st.body, leaf.env):
            if nm in one.env:
                one.env[nm] = ('loopvar', nm, st.lineno, one.env[nm])
            else:
                one.env[nm] = ('loopvar', nm, st.lineno)
        s.assign_target(st.target, ('elem', it), one, st)
        one.effects.append(('loop-enter', it, None, st, len(one.conds)))
        out = []
        for r in s.block(st.body, [one]):
            s._drop_forwards(r.env)
            r.effects.append(('loop-exit', r.outcome, None, st, len(r.conds)))
            if r.outcome in ('break', 'continue'):
                r.outcome = None
            if r.outcome is None:
                r.notes.append(('loop-end-env', st.lineno, {nm: r.env.get(nm) for nm in s._assigned_names(st.body, leaf.env)}))
                for nm in s._assigned_names(st.body, leaf.env):
                    r.env[nm] = ('loopvar', nm, st.lineno)
            out.append(r)
        res = [skip] + out
        if st.orelse:
            res = s.block(st.orelse, res)
        return res

    def while_loop(s, st, leaf):
        if not (isinstance(st.test, ast.Constant)) and not st.orelse and any(isinstance(x, ast.NamedExpr) for x in ast.walk(st.test)):
            # `while C: BODY` with a test that binds a name (:=) is `while True: if not C: break; BODY`: the test is evaluated
            # (with its effects) at the start of every iteration, and leaving the loop is a break
            guard = ast.If(test=ast.UnaryOp(op=ast.Not(), operand=st.test), body=[ast.Break()], orelse=[])
            new_loop = ast.While(test=ast.Constant(value=True), body=[guard] + list(st.body), orelse=[])
            for x in (guard, guard.test, guard.body[0], new_loop, new_loop.test):
                ast.copy_location(x, st)
            return s.while_loop(new_loop, leaf)
        if isinstance(st.test, ast.Call) and not st.orelse and s._inline_target(st.test, leaf) is not None and getattr(s, '_wh_depth', 0) < 2:
            # `while self._helper(): BODY` with a helper the rules do not know: `while True: t = self._helper(); if not t: break; BODY`
            # (the helper's paths -- what it does with one message, one block -- become paths of the loop body)
            tmp = '_while_test_%d' % st.lineno
            asg = ast.Assign(targets=[ast.Name(id=tmp, ctx=ast.Store())], value=st.test)
            guard = ast.If(test=ast.UnaryOp(op=ast.Not(), operand=ast.Name(id=tmp, ctx=ast.Load())), body=[ast.Break()], orelse=[])
            new_loop = ast.While(test=ast.Constant(value=True), body=[asg, guard] + [b for b in st.body if not isinstance(b, ast.Pass)], orelse=[])
            for x in (asg, guard, guard.test, guard.body[0], new_loop, new_loop.test):
                ast.copy_location(x, st)
            ast.fix_missing_locations(new_loop)
            s._wh_depth = getattr(s, '_wh_depth', 0) + 1
            try:
                return s.while_loop(new_loop, leaf)
            finally:
                s._wh_depth -= 1
        const_true = isinstance(st.test, ast.Constant) and bool(st.test.value)
        # `flag = True; while flag: ... flag = False ...`: a loop that runs until the body clears its flag is `while True` whose
        # iterations that end with the flag cleared leave the loop (the test is only evaluated between iterations)
        flag_loop = None
        flag_exit = False
        tn_ = st.test
        neg_ = isinstance(tn_, ast.UnaryOp) and isinstance(tn_.op, ast.Not)
        fl_ = tn_.operand if neg_ else tn_
        if not const_true and not st.orelse and isinstance(fl_, ast.Name) and leaf.env.get(fl_.id) == ('c', not neg_):
            assigns = [n for b in st.body for n in ast.walk(b) if isinstance(n, (ast.Assign, ast.AugAssign, ast.AnnAssign, ast.NamedExpr)) and any(isinstance(x, ast.Name) and x.id == fl_.id and isinstance(x.ctx, ast.Store) for x in ast.walk(n))]
            if assigns and all(isinstance(n, ast.Assign) and len(n.targets) == 1 and isinstance(n.targets[0], ast.Name) and isinstance(n.value, ast.Constant) and n.value.value is neg_ for n in assigns) \
                    and not any(isinstance(n, (ast.FunctionDef, ast.Lambda, ast.Global, ast.Nonlocal)) for b in st.body for n in ast.walk(b)):
                flag_loop = fl_.id              # (`while flag` cleared by flag = False; `while not done` ended by done = True)
                flag_exit = neg_
                const_true = True
        res = []
        one = leaf.clone()
        s._drop_forwards(one.env)
        assigned = s._assigned_names(st.body, leaf.env)
        for nm in assigned:
            if nm in one.env and nm != flag_loop:
                one.env[nm] = ('loopvar', nm, st.lineno, one.env[nm])
        one.effects.append(('loop-enter', ('c', True) if const_true else s.T(st.test, one), None, st, len(one.conds)))
        if const_true:
            starts = [one]
        else:
            T, F = s.cond_split(st.test, one)
            starts = T
            skip = leaf.clone()
            t2, f2 = s.cond_split(st.test, skip)
            for l in f2:
                l.effects.append(('loop-skip', None, None, st, len(l.conds)))
                res.append(l)
        for r in s.block(st.body, starts):
            broke = r.outcome == 'break'
            if flag_loop is not None and r.outcome in (None, 'continue') and r.env.get(flag_loop) == ('c', flag_exit):
                broke = True                      # the iteration cleared the flag: the loop test fails next
            s._drop_forwards(r.env)
            r.effects.append(('loop-exit', r.outcome, None, st, len(r.conds)))
            if r.outcome in ('break', 'continue'):
                r.outcome = None
            if r.outcome is None:
                if const_true and not broke:
                    # falls back to the loop head of an infinite loop: abstractly, the loop continues;
                    # mark the leaf as non-terminating iteration
                    r.outcome = 'loop-back'
                    r.node = st
                else:
                    r.notes.append(('loop-end-env', st.lineno, {nm: r.env.get(nm) for nm in assigned}))
                    for nm in assigned:
                        r.env[nm] = ('loopvar', nm, st.lineno)
            res.append(r)
        if st.orelse:
            res = s.block(st.orelse, res)
        return res

    def try_stmt(s, st, leaf):
        out = []
        body_leaves = s.block(st.body, [leaf.clone()])
        if st.orelse:
            body_leaves = s.block(st.orelse, body_leaves)
        out += body_leaves
        for h in st.handlers:
            l = leaf.clone()
            # the handler runs after a prefix of the body: variables assigned in the body are unknown,
            # effects of the body may or may not have happened
            single = len(st.body) == 1 and isinstance(st.body[0], (ast.Assign, ast.AugAssign, ast.AnnAssign, ast.Expr, ast.Return))
            if not single and len(st.body) == 1 and isinstance(st.body[0], ast.If):
                # try: if <test that may raise>: x = CONST else: x = CONST -- the branches cannot raise (plain assignments of constants /
                # names, pass, return of a constant), so an exception comes from the test, before anything was assigned
                def inert(b):
                    return isinstance(b, ast.Pass) or (isinstance(b, ast.Assign) and all(isinstance(t_, ast.Name) for t_ in b.targets) and isinstance(b.value, (ast.Constant, ast.Name))) \
                        or (isinstance(b, ast.Return) and (b.value is None or isinstance(b.value, (ast.Constant, ast.Name))))
                single = all(inert(b) for b in st.body[0].body + st.body[0].orelse)
            if not single:          # (an exception inside a single simple statement leaves its target unassigned: the state is the one before)
                for nm in s._assigned_names(st.body):
                    l.env[nm] = ('maybe', nm)
            et = s.T(h.type, l) if h.type is not None else ('b', 'BaseException')
            l.conds.append((('exc', et), True, h))
            l.effects.append(('except', et, None, h, len(l.conds)))
            body_calls = []
            for b in st.body:
                for c in _calls_postorder(b):
                    body_calls.append(c)
            l.notes.append(('try-body-calls', tuple(ast.unparse(c.func) for c in body_calls)))
            if h.name:
                l.env[h.name] = ('excval', et)
            out += s.block(h.body, [l])
        if st.finalbody:
            out = s.block(st.finalbody, out)
        return out


PURE_CALLS = {'isinstance', 'len', 'callable', 'type', 'int', 'float', 'str', 'bool', 'abs', 'min', 'max', 'round', 'hasattr', 'issubclass'}


PURE_BUILTINS = {'round', 'int', 'len', 'float', 'abs', 'min', 'max', 'bool', 'str', 'bytes', 'tuple', 'list', 'isinstance', 'floor', 'ceil', 'divmod', 'sum', 'sorted', 'repr'}


def _has_effect_call(*exprs):
    for e in exprs:
        for x in ast.walk(e):
            if isinstance(x, ast.Call):
                if isinstance(x.func, ast.Name) and x.func.id in PURE_BUILTINS:
                    continue
                if isinstance(x.func, ast.Attribute) and isinstance(x.func.value, ast.Name) and x.func.value.id in ('math', 'np', 'numpy') :
                    continue
                return True
    return False


def _percent_to_format(t):
    """('template in {}-style', number of fields) for a %-style template made of literal text and %d %i %s %r %f directives with
    optional zero-padded width / precision; None when it uses anything else"""
    import re as _re
    out = []
    n = 0
    i = 0
    while i < len(t):
        c = t[i]
        if c == '%':
            m = _re.match(r'%(0?\d*)(?:\.(\d+))?([disrf%])', t[i:])
            if not m:
                return None
            w, prec, k = m.group(1), m.group(2), m.group(3)
            if k == '%':
                if w or prec:
                    return None
                out.append('%')
            else:
                n += 1
                if k in 'di':
                    out.append('{:%sd}' % w if w else '{:d}')
                elif k == 'f':
                    out.append('{:%s%sf}' % (w, '.' + prec if prec is not None else '.6'))
                elif k == 's':
                    if w or prec:
                        return None
                    out.append('{}')
                else:
                    if w or prec:
                        return None
                    out.append('{!r}')
            i += len(m.group(0))
        else:
            out.append('{{' if c == '{' else '}}' if c == '}' else c)
            i += 1
    return ''.join(out), n


_ENUM_BASES = ('Enum', 'IntEnum', 'StrEnum', 'IntFlag', 'Flag')


def _base_names(c):
    return [b.id if isinstance(b, ast.Name) else (b.attr if isinstance(b, ast.Attribute) else None) for b in c.bases]


def _is_enum(c):
    return any(b in _ENUM_BASES for b in _base_names(c))


def _value_enum(c):
    """an enum whose members ARE values of a builtin type: class X(str, Enum) / (int, Enum) / IntEnum / StrEnum / IntFlag"""
    bs = _base_names(c)
    return any(b in ('IntEnum', 'StrEnum', 'IntFlag') for b in bs) or (any(b in ('str', 'int') for b in bs) and _is_enum(c))


def _all_const(t):
    if t[0] == 'c':
        return True
    if t[0] in ('tuple', 'list'):
        return all(_all_const(x) for x in t[1])
    return False


def _type_table(v):
    """a tuple of builtin type names: (int, float) -- what isinstance is given"""
    names = ('int', 'float', 'str', 'bytes', 'bool', 'slice', 'complex')
    if isinstance(v, ast.Name):
        return v.id in names
    return isinstance(v, ast.Tuple) and bool(v.elts) and all(isinstance(x, ast.Name) and x.id in names for x in v.elts)


def _literal_table(v):
    return isinstance(v, (ast.Tuple, ast.List)) and bool(v.elts) and all(isinstance(x, (ast.Constant, ast.Tuple, ast.List, ast.Load, ast.UnaryOp, ast.USub)) for x in ast.walk(v))


def _norm_cmp(ct, truth):
    if ct[0] == 'not':
        return _norm_cmp(ct[1], not truth)
    if ct[0] != 'cmp':
        return None
    op, a, b = ct[1], ct[2], ct[3]
    if not truth:
        op = NEGATE.get(op)
        if op is None:
            return None
    if a[0] == 'c' and b[0] != 'c' and op in FLIP:
        op, a, b = FLIP[op], b, a
    return (op, a, b)


def _subst(t, old, new):
    if t == old:
        return new
    if isinstance(t, tuple):
        return tuple(_subst(x, old, new) for x in t)
    return t


def _pure(t):
    """no sub-term whose value may change between two evaluations (calls other than a few pure builtins)"""
    for x in walk(t):
        if x[0] == 'call' and not (x[1][0] == 'b' and x[1][1] in PURE_CALLS):
            return False
        if x[0] in ('loopvar', 'maybe', 'unk', 'yieldexpr'):
            return False
    return True


def _calls_postorder(expr):
    """Call nodes inside expr in evaluation order (arguments before the call), not descending into lambdas / comprehensions' bodies"""
    out = []

    def rec(n):
        if isinstance(n, (ast.Lambda,)):
            return
        for ch in ast.iter_child_nodes(n):
            rec(ch)
        if isinstance(n, ast.Call):
            out.append(n)
    rec(expr)
    return out


# ======================================================================================
# term utilities
def walk(t):
    """all sub-terms (pre-order)"""
    if not isinstance(t, tuple) or not t:
        return
    k = t[0]
    if not isinstance(k, str):
        for x in t:
            yield from walk(x)
        return
    yield t
    if k == 'call':
        yield from walk(t[1])
        for a in t[2]:
            yield from walk(a)
        for _, v in t[3]:
            yield from walk(v)
    elif k == 'dict':
        for a, b in t[1]:
            yield from walk(a)
            yield from walk(b)
    elif k in ('gen', 'listcomp', 'setcomp'):
        yield from walk(t[1])
        for var, it, conds in t[2]:
            yield from walk(it)
            for c in conds:
                yield from walk(c)
    elif k in ('c', 'p', 'b', 'lp', 'g', 'ext', 'self', 'str', 'unk', 'loopvar', 'maybe', 'localfunc', 'mod', 'pkg'):
        return
    elif k == 'lambda':
        yield from walk(t[2])
    else:
        for x in t[1:]:
            if isinstance(x, tuple):
                yield from walk(x)


def contains(t, pred):
    return any(pred(x) for x in walk(t))


def callee_name(t):
    """short readable name of a call's function term"""
    if t[0] != 'call':
        return None
    return term_name(t[1])


def term_name(f):
    if f[0] == 'g':
        return '%s.%s' % (f[1], f[2])
    if f[0] in ('b', 'p', 'lp'):
        return f[1]
    if f[0] == 'ext':
        return f[1]
    if f[0] == 'attr':
        b = term_name(f[1])
        return '%s.%s' % (b, f[2])
    if f[0] == 'self':
        return 'self'
    if f[0] == 'c':
        return repr(f[1])
    if f[0] == 'call':
        return term_name(f[1]) + '()'
    if f[0] == 'sub':
        return term_name(f[1]) + '[]'
    return '<%s>' % f[0]


def show(t, depth=0):
    if t is None:
        return 'None'
    if not isinstance(t, tuple):
        return repr(t)
    k = t[0]
    if depth > 6:
        return '...'
    S = lambda x: show(x, depth + 1)
    if k == 'c':
        return repr(t[1])
    if k in ('p', 'b', 'lp'):
        return t[1]
    if k == 'self':
        return 'self'
    if k == 'g':
        return '%s.%s' % (t[1], t[2])
    if k == 'ext':
        return t[1]
    if k == 'attr':
        return '%s.%s' % (S(t[1]), t[2])
    if k == 'call':
        return '%s(%s)' % (S(t[1]), ', '.join([S(a) for a in t[2]] + ['%s=%s' % (kw, S(v)) for kw, v in t[3]]))
    if k == 'bin':
        return '(%s %s %s)' % (S(t[2]), t[1], S(t[3]))
    if k == 'un':
        return '%s%s' % (t[1], S(t[2]))
    if k == 'cmp':
        return '%s %s %s' % (S(t[2]), t[1], S(t[3]))
    if k in ('and', 'or'):
        return '(' + (' %s ' % k).join(S(x) for x in t[1]) + ')'
    if k == 'not':
        return 'not ' + S(t[1])
    if k == 'sub':
        return '%s[%s]' % (S(t[1]), S(t[2]))
    if k == 'slice':
        return '%s:%s' % (S(t[1]) if t[1] else '', S(t[2]) if t[2] else '')
    if k in ('tuple', 'list', 'set'):
        return '(' + ', '.join(S(x) for x in t[1]) + ')'
    if k == 'ite':
        return '(%s if %s else %s)' % (S(t[2]), S(t[1]), S(t[3]))
    if k == 'dict':
        return '{' + ', '.join('%s: %s' % (S(a), S(b)) for a, b in t[1]) + '}'
    if k == 'star':
        return '*' + S(t[1])
    if k in ('gen', 'listcomp', 'setcomp'):
        return '%s(%s for %s)' % (k, S(t[1]), '; '.join('%s in %s' % (g[0], S(g[1])) for g in t[2]))
    if k == 'elem':
        return 'elem(%s)' % S(t[1])
    return '<%s>' % ' '.join(str(x)[:40] for x in t)


def flatten_product(t):
    """multiset of factors of a product term; numeric constants folded"""
    if t[0] == 'bin' and t[1] == '*':
        return flatten_product(t[2]) + flatten_product(t[3])
    return [t]


def flatten_sum(t):
    if t[0] == 'bin' and t[1] == '+':
        return flatten_sum(t[2]) + flatten_sum(t[3])
    return [t]


def bind_call(call_term, fn, skip_self=False):
    """map parameter names of FunctionDef fn to the argument terms of call_term; missing -> default AST marker"""
    a = fn.args
    params = [x.arg for x in a.posonlyargs + a.args]
    if skip_self and params:
        params = params[1:]
    out = {}
    extra = []
    star = False
    for i, v in enumerate(call_term[2]):
        if v[0] == 'star':
            star = True
            out['*'] = v[1]
            continue
        if i < len(params) and not star:
            out[params[i]] = v
        else:
            extra.append(v)
    for k, v in call_term[3]:
        if k == '**':
            out['**'] = v
        else:
            out[k] = v
    if extra:
        out['*extra'] = tuple(extra)
    return out


def default_of(fn, pname):
    a = fn.args
    params = [x.arg for x in a.posonlyargs + a.args]
    if pname in params:
        i = params.index(pname)
        j = i - (len(params) - len(a.defaults))
        if j >= 0:
            return a.defaults[j]
    for x, d in zip(a.kwonlyargs, a.kw_defaults):
        if x.arg == pname:
            return d
    return None
