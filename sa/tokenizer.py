"""E3 driver: inductive-invariant inference (Houdini over unit-typed template atoms) and
obligation checking for the stream tokenizer (DESIGN 3.3, 4.1-4.4, 4.8, 4.20).

Nothing about the class is named here except its public entry points: the class name, the
method `tokenize`, the constructor parameter names (public API) and the three mode constants.
Fields, helpers, the frame buffer, the automaton field and the counters are discovered.
"""
import ast
import os
import time

from . import absint
from .absint import Interp, Path, Unsupported, LIN, NONE
from .linear import (C, V, add, scale, subst, le, lt, ge, gt, eq, neg, feasible, entails, is_const, cval,
                     variables, model, holds_at, show, show_expr, STATS)

PARAM_NAMES = ('min_length', 'max_length', 'max_continuous_silence', 'init_min', 'init_max_silence')
m_, M_, K_, i0_, j0_ = (V('p:' + x) for x in PARAM_NAMES)


from .common import AnalysisError


# --------------------------------------------------------------------------------------
# reference step function of C04 (DESIGN 3.3.5) -- the oracle, evaluated on the ghost state
# --------------------------------------------------------------------------------------
REF_TEXT = '''
def ref_step(valid):                      # once per frame; F = index of this frame
    if valid:
        if not open: open, start, n, r, g = True, F, 0, 0, False
        n += 1; r = 0                     # APPEND
        return cut_if_full()
    if not open: return None
    if r >= max(K, 0): return close()     # tolerance exhausted
    n += 1; r += 1                        # APPEND (tolerated silence)
    return cut_if_full()
def cut_if_full():
    if n == M:
        tok = (start, start + M - 1); start, n, g = F + 1, 0, True
        return tok                        # a full piece is always delivered
def close():                              # also at end of stream if open
    open = False; t = min(r, n)           # trailing silence inside the piece
    keep = n - t if drop else n
    ok = t < n and (keep >= m or (not strict and g))
    tok = (start, start + keep - 1) if ok else None
    n, r, g = 0, 0, False
    return tok
'''


def ref_outcomes(n, r, g, start, F, inp, strict, drop):
    """all cases of the reference step on ghost pre-state (n, r, g, start) for input inp.
    -> list of dict(cons, appended, tok (s, e) | None, n2, g2, open2)"""
    out = []

    def cut_if_full(cs, n1, start1, g1):
        out.append(dict(cons=cs + [eq(n1, M_)], appended=True, tok=(start1, add(add(start1, M_), C(-1))), n2=C(0), g2=True, open2=True,
                        what='append, piece full -> cut'))
        out.append(dict(cons=cs + [lt(n1, M_)], appended=True, tok=None, n2=n1, g2=g1, open2=True, what='append'))
        out.append(dict(cons=cs + [gt(n1, M_)], appended=True, tok=None, n2=n1, g2=g1, open2=True, what='append beyond max_length'))

    def close(cs):
        for tcs, t in (([le(r, n)], r), ([gt(r, n)], n)):
            keep = add(n, t, -1) if drop else n
            base = cs + tcs
            # ok = t < n and (keep >= m or (not strict and g))
            oks = [[lt(t, n), ge(keep, m_)]]
            noks = [[ge(t, n)]]
            if (not strict) and g:
                oks.append([lt(t, n), lt(keep, m_)])
            else:
                noks.append([lt(t, n), lt(keep, m_)])
            for o in oks:
                out.append(dict(cons=base + o, appended=False, tok=(start, add(add(start, keep), C(-1))), n2=C(0), g2=False, open2=False,
                                what='close, deliver'))
            for o in noks:
                out.append(dict(cons=base + o, appended=False, tok=None, n2=C(0), g2=False, open2=False, what='close, discard'))

    open_cases = []          # (cons, is_open)
    if g:
        open_cases.append(([], True))
    else:
        open_cases.append(([ge(n, C(1))], True))
        open_cases.append(([le(n, C(0))], False))
    for ocs, is_open in open_cases:
        if inp == 'v':
            if is_open:
                cut_if_full(ocs, add(n, C(1)), start, g)
            else:
                cut_if_full(ocs, C(1), F, False)
        elif inp == 'i':
            if not is_open:
                out.append(dict(cons=ocs, appended=False, tok=None, n2=n, g2=False, open2=False, what='silence, nothing open'))
            else:
                # r >= max(K, 0)
                close(ocs + [le(K_, C(0)), ge(r, C(0))])
                close(ocs + [gt(K_, C(0)), ge(r, K_)])
                cut_if_full(ocs + [gt(K_, C(0)), lt(r, K_)], add(n, C(1)), start, g)
                cut_if_full(ocs + [le(K_, C(0)), lt(r, C(0))], add(n, C(1)), start, g)
        else:
            if is_open:
                close(ocs)
            else:
                out.append(dict(cons=ocs, appended=False, tok=None, n2=n, g2=False, open2=False, what='end of stream, nothing open'))
    return out


# --------------------------------------------------------------------------------------
class Leaf:
    __slots__ = ('id', 'key', 'inp', 'cons', 'env', 'key2', 'events', 'conds', 'exit', 'cut', 'taint2', 'imprecise',
                 'L2', 'A2', 'points', 'delivered', 'final_list', 'raised')


class TokenizerAnalysis:
    def __init__(s, src_path, cls_name='StreamTokenizer', entry='tokenize'):
        s.path = src_path
        s.cls_name = cls_name
        s.relname = 'auditok/core.py'
        # the whole package is parsed: the class may inherit from a private base class, use module-level constants / enums
        # and call helper functions that live in this or in another module of the package
        from .common import Repo
        from .symex import Model
        s.model = Model(Repo(os.path.dirname(os.path.dirname(os.path.abspath(src_path)))))
        s.tree = s.model.mods['core']['tree']
        h = s.model.home('core', cls_name)
        if h is None or not isinstance(h[1], ast.ClassDef):
            raise AnalysisError('class %s not found in %s' % (cls_name, src_path))
        s.cls = h[1]
        s.relname = 'auditok/%s.py' % h[0]
        s.I = Interp(s.cls, s.relname, model=s.model, mod=h[0])
        if entry not in s.I.methods or '__init__' not in s.I.methods:
            raise AnalysisError('entry point %s.%s / __init__ not found' % (cls_name, entry))
        s.entry = entry
        s.find_generator()

    # ---------------------------------------------------------------- structure discovery
    def find_generator(s):
        I = s.I
        ent = I.methods[s.entry]

        def is_gen(m):
            return any(isinstance(x, (ast.Yield, ast.YieldFrom)) for x in ast.walk(m))
        if is_gen(ent):
            s.gen = ent
        else:
            cands = []
            for n in ast.walk(ent):
                if isinstance(n, ast.Call) and isinstance(n.func, ast.Attribute) and isinstance(n.func.value, ast.Name) \
                        and n.func.value.id == 'self' and n.func.attr in I.methods and is_gen(I.methods[n.func.attr]):
                    cands.append(n)
            if len({c.func.attr for c in cands}) != 1:
                raise AnalysisError('could not find the token generator called from %s (candidates: %s)' % (s.entry, [c.func.attr for c in cands]))
            s.gen = I.methods[cands[0].func.attr]
            s.gen_call = cands[0]
        loops = [n for n in s.gen.body if isinstance(n, ast.While)]
        if not loops:
            fused = s.fuse_frame_generator(s.gen)
            if fused is not None:
                s.gen = fused
                I.methods[fused.name] = fused
                loops = [n for n in s.gen.body if isinstance(n, ast.While)]
        if len(loops) != 1:
            raise AnalysisError('token generator %s: expected exactly one top-level `while` loop' % s.gen.name)
        loop = loops[0]
        # rotated loop:  x = READ; while x is not None: BODY; x = READ   is   while True: x = READ; if x is None: break; BODY
        # (BODY without `continue`, which would skip the trailing read in the original)
        li = s.gen.body.index(loop)
        t_ = loop.test
        if li > 0 and isinstance(s.gen.body[li - 1], ast.Assign) and len(s.gen.body[li - 1].targets) == 1 and isinstance(s.gen.body[li - 1].targets[0], ast.Name) and not loop.orelse \
                and isinstance(t_, ast.Compare) and len(t_.ops) == 1 and isinstance(t_.ops[0], ast.IsNot) and isinstance(t_.left, ast.Name) and t_.left.id == s.gen.body[li - 1].targets[0].id \
                and isinstance(t_.comparators[0], ast.Constant) and t_.comparators[0].value is None and loop.body and isinstance(loop.body[-1], ast.Assign) \
                and ast.dump(loop.body[-1]) == ast.dump(s.gen.body[li - 1]) and not any(isinstance(x, ast.Continue) for b in loop.body for x in ast.walk(b)):
            import copy
            rd = s.gen.body[li - 1]
            guard = ast.If(test=ast.Compare(left=ast.Name(id=t_.left.id, ctx=ast.Load()), ops=[ast.Is()], comparators=[ast.Constant(value=None)]), body=[ast.Break()], orelse=[])
            new_loop = ast.While(test=ast.Constant(value=True), body=[copy.deepcopy(rd), guard] + list(loop.body[:-1]), orelse=[])
            for x_ in (new_loop, guard):
                ast.copy_location(x_, loop)
            ast.fix_missing_locations(new_loop)
            g2 = copy.copy(s.gen)
            g2.body = list(s.gen.body[:li - 1]) + [new_loop] + list(s.gen.body[li + 1:])
            s.gen = g2
            I.methods[g2.name] = g2
            loop = new_loop
        if not (isinstance(loop.test, ast.Constant) and loop.test.value in (True, 1)) and not loop.orelse:
            # `while C: BODY` is `while True: if not C: break; BODY` (C may bind names with :=)
            import copy
            guard = ast.If(test=ast.UnaryOp(op=ast.Not(), operand=loop.test), body=[ast.Break()], orelse=[])
            new_loop = ast.While(test=ast.Constant(value=True), body=[guard] + list(loop.body), orelse=[])
            ast.copy_location(new_loop, loop)
            ast.copy_location(guard, loop)
            ast.fix_missing_locations(new_loop)
            g2 = copy.copy(s.gen)
            g2.body = [new_loop if b is loop else b for b in s.gen.body]
            s.gen = g2
            I.methods[g2.name] = g2
            loop = new_loop
        if not (isinstance(loop.test, ast.Constant) and loop.test.value in (True, 1)):
            raise AnalysisError('token generator %s: loop condition is not constant True' % s.gen.name)
        if loop.orelse:
            raise AnalysisError('while/else in the token generator')
        for n in ast.walk(loop):
            if n is not loop and isinstance(n, (ast.While, ast.For, ast.Try, ast.With)):
                raise AnalysisError('nested %s inside the token loop at line %d' % (type(n).__name__, n.lineno))
        loop = s._inline_conditional_step(loop)
        s.loop = loop
        i = s.gen.body.index(loop)
        s.pre_stmts = s.gen.body[:i]
        s.post_stmts = s.gen.body[i + 1:]
        gp = [a.arg for a in s.gen.args.args][1:]
        if len(gp) != 1:
            raise AnalysisError('token generator %s should take exactly the data source' % s.gen.name)
        s.src_param = gp[0]

    def _inline_conditional_step(s, loop):
        """step = self._process / if <test on the bounds>: step = self._fast_path  ...  step(frame)   is
        (self._fast_path(frame) if <test> else self._process(frame)): the test reads only fields that nothing but the constructor
        assigns, so evaluating it at every call changes nothing.  The choice of the step function becomes a branch on the parameters."""
        import copy
        I = s.I
        body = s.gen.body
        li = body.index(loop)
        stored_outside_init = {t.attr for mn, m in I.methods.items() if mn != '__init__' for n in ast.walk(m)
                               for t in (n.targets if isinstance(n, ast.Assign) else ([n.target] if isinstance(n, (ast.AugAssign, ast.AnnAssign)) else []))
                               for t in ast.walk(t) if isinstance(t, ast.Attribute) and isinstance(t.value, ast.Name) and t.value.id == 'self' and isinstance(t.ctx, ast.Store)}
        for ai in range(li - 1):
            a, b = body[ai], body[ai + 1]
            if not (isinstance(a, ast.Assign) and len(a.targets) == 1 and isinstance(a.targets[0], ast.Name) and isinstance(a.value, ast.Attribute)
                    and isinstance(a.value.value, ast.Name) and a.value.value.id == 'self' and a.value.attr in I.methods):
                continue
            nm = a.targets[0].id
            if not (isinstance(b, ast.If) and not b.orelse and len(b.body) == 1 and isinstance(b.body[0], ast.Assign) and len(b.body[0].targets) == 1
                    and isinstance(b.body[0].targets[0], ast.Name) and b.body[0].targets[0].id == nm and isinstance(b.body[0].value, ast.Attribute)
                    and isinstance(b.body[0].value.value, ast.Name) and b.body[0].value.value.id == 'self' and b.body[0].value.attr in I.methods):
                continue
            reads = [x for x in ast.walk(b.test) if isinstance(x, ast.Attribute)]
            pure = all(isinstance(x.value, ast.Name) and x.value.id == 'self' and x.attr not in stored_outside_init and x.attr not in I.methods for x in reads) \
                and not any(isinstance(x, (ast.Call, ast.NamedExpr, ast.Yield, ast.Await)) for x in ast.walk(b.test)) \
                and all(isinstance(x.ctx, ast.Load) and x.id == 'self' for x in ast.walk(b.test) if isinstance(x, ast.Name))
            nstores = sum(1 for x in ast.walk(s.gen) if isinstance(x, ast.Name) and x.id == nm and isinstance(x.ctx, ast.Store))
            if not pure or nstores != 2:
                continue
            m1, m2, test = a.value, b.body[0].value, b.test

            class Rw(ast.NodeTransformer):
                def visit_Call(self, n):
                    self.generic_visit(n)
                    if isinstance(n.func, ast.Name) and n.func.id == nm:
                        c1, c2 = copy.deepcopy(n), copy.deepcopy(n)
                        c1.func, c2.func = copy.deepcopy(m1), copy.deepcopy(m2)
                        return ast.copy_location(ast.IfExp(test=copy.deepcopy(test), body=c2, orelse=c1), n)
                    return n
            new_loop = ast.fix_missing_locations(Rw().visit(copy.deepcopy(loop)))
            if any(isinstance(x, ast.Name) and x.id == nm for x in ast.walk(new_loop)):
                continue                    # the alias is used as a value somewhere: leave everything as it is
            g2 = copy.copy(s.gen)
            g2.body = [st for k, st in enumerate(body) if k not in (ai, ai + 1) and st is not loop]
            g2.body.insert(li - 2, new_loop)
            s.gen = g2
            I.methods[g2.name] = g2
            return new_loop
        return loop

    def fuse_frame_generator(s, gen):
        """`for T in self.g(args): BODY` at the top level of the token generator, where g is a generator method of the class of the
        form `PRE; while True: S1; yield E; S2` -- the same loop written in one piece is `PRE; while True: S1; T = E; BODY; S2`
        (a `return` inside g's loop ends the iteration: `break`).  Returns the rewritten FunctionDef (a copy) or None."""
        import copy
        I = s.I
        fors = [n for n in gen.body if isinstance(n, ast.For)]
        if len(fors) != 1 or fors[0].orelse:
            return None
        f = fors[0]
        it = f.iter
        if not (isinstance(it, ast.Call) and isinstance(it.func, ast.Attribute) and isinstance(it.func.value, ast.Name) and it.func.value.id == 'self' and it.func.attr in I.methods) or it.keywords:
            return None
        g = I.methods[it.func.attr]
        if any(isinstance(x, (ast.Break, ast.Continue, ast.Return)) for st in f.body for x in ast.walk(st)):
            return None
        gbody = [b for b in g.body if not (isinstance(b, ast.Expr) and isinstance(b.value, ast.Constant))]
        wl = [b for b in gbody if isinstance(b, ast.While)]
        if len(wl) != 1 or gbody[-1] is not wl[0] or wl[0].orelse:
            return None                      # nothing may follow g's loop (a `return` in it becomes `break`)
        w = wl[0]
        ys = [i for i, b in enumerate(w.body) if isinstance(b, ast.Expr) and isinstance(b.value, ast.Yield)]
        all_y = [x for x in ast.walk(g) if isinstance(x, (ast.Yield, ast.YieldFrom))]
        if len(ys) != 1 or len(all_y) != 1 or w.body[ys[0]].value.value is None:
            return None
        gparams = [a.arg for a in g.args.args][1:]
        if len(gparams) != len(it.args) or g.args.vararg or g.args.kwarg or g.args.kwonlyargs or any(isinstance(a, ast.Starred) for a in it.args):
            return None
        if not all(isinstance(a, (ast.Name, ast.Attribute, ast.Constant)) for a in it.args):
            return None
        sub = dict(zip(gparams, it.args))
        glocals = {x.id for x in ast.walk(g) if isinstance(x, ast.Name) and isinstance(x.ctx, ast.Store)} - set(gparams)

        class R(ast.NodeTransformer):
            def visit_Name(self, n):
                if n.id in sub and isinstance(n.ctx, ast.Load):
                    return ast.copy_location(copy.deepcopy(sub[n.id]), n)
                if n.id in glocals:
                    return ast.copy_location(ast.Name(id='_fused_' + n.id, ctx=n.ctx), n)
                return n

            def visit_Return(self, n):
                if n.value is not None and not (isinstance(n.value, ast.Constant) and n.value.value is None):
                    raise ValueError('return with a value in a generator')
                return ast.copy_location(ast.Break(), n)
        try:
            pre = [R().visit(copy.deepcopy(b)) for b in gbody[:-1]]
            w2 = copy.deepcopy(w)
            nb = []
            for i, b in enumerate(w2.body):
                if i == ys[0]:
                    val = R().visit(b.value.value)
                    nb.append(ast.copy_location(ast.Assign(targets=[copy.deepcopy(f.target)], value=val), b))
                    for t in ast.walk(nb[-1].targets[0]):
                        if isinstance(t, ast.Name):
                            t.ctx = ast.Store()
                    nb += f.body
                else:
                    nb.append(R().visit(b))
            w2.body = nb
        except ValueError:
            return None
        new = copy.copy(gen)
        i = gen.body.index(f)
        new.body = gen.body[:i] + pre + [w2] + gen.body[i + 1:]
        ast.fix_missing_locations(new)
        s.fused_from = (gen.name, g.name)
        return new

    def reachable_methods(s):
        I = s.I
        seen = set()
        stack = [s.gen.name]
        while stack:
            m = stack.pop()
            if m in seen:
                continue
            seen.add(m)
            for n in ast.walk(I.methods[m]):
                if isinstance(n, ast.Attribute) and isinstance(n.value, ast.Name) and n.value.id == 'self' and n.attr in I.methods:
                    stack.append(n.attr)
        return seen

    def discover_roles(s, pflds):
        I = s.I
        reach = s.reachable_methods()
        s.reach = reach
        stores = {}          # field -> list of value AST nodes (None = unknown value), ('aug', node) for augmented assignments
        bool_params = set()
        for mn in reach:
            m = I.methods[mn]
            a = m.args
            for arg, dflt in zip(a.args[len(a.args) - len(a.defaults):], a.defaults):
                if isinstance(dflt, ast.Constant) and isinstance(dflt.value, bool):
                    bool_params.add((mn, arg.arg))
            for n in ast.walk(m):
                pairs = []
                if isinstance(n, ast.Assign):
                    for t in n.targets:
                        if isinstance(t, (ast.Tuple, ast.List)):
                            if isinstance(n.value, (ast.Tuple, ast.List)) and len(n.value.elts) == len(t.elts):
                                pairs += list(zip(t.elts, n.value.elts))
                            else:
                                pairs += [(e, None) for e in t.elts]
                        else:
                            pairs.append((t, n.value))
                elif isinstance(n, ast.AugAssign):
                    pairs.append((n.target, ('aug', n)))
                for t, v in pairs:
                    if isinstance(t, ast.Attribute) and isinstance(t.value, ast.Name) and t.value.id == 'self':
                        stores.setdefault(t.attr, []).append((mn, v))
        s.stores = {f: [v for _, v in vs] for f, vs in stores.items()}
        # a parameter without a bool default is boolean when every call of the method inside the class passes a bool constant,
        # a comparison, or a boolean parameter of the caller for it (fixpoint)
        changed = True
        while changed:
            changed = False
            for mn in reach:
                m = I.methods[mn]
                pnames = [x.arg for x in m.args.args][1:]
                for i_, pn_ in enumerate(pnames):
                    if (mn, pn_) in bool_params:
                        continue
                    given = []
                    for cm in reach:
                        for n in ast.walk(I.methods[cm]):
                            if isinstance(n, ast.Call) and isinstance(n.func, ast.Attribute) and isinstance(n.func.value, ast.Name) and n.func.value.id == 'self' and n.func.attr == mn:
                                v_ = n.args[i_] if i_ < len(n.args) else next((k.value for k in n.keywords if k.arg == pn_), None)
                                given.append((cm, v_))
                    if given and all(v_ is not None and ((isinstance(v_, ast.Constant) and isinstance(v_.value, bool)) or isinstance(v_, ast.Compare)
                                                        or (isinstance(v_, ast.Name) and (cm, v_.id) in bool_params)) for cm, v_ in given):
                        bool_params.add((mn, pn_))
                        changed = True

        def is_boolish(mn, v):
            if isinstance(v, ast.Constant) and isinstance(v.value, bool):
                return True
            if isinstance(v, (ast.Compare, ast.BoolOp)) or (isinstance(v, ast.UnaryOp) and isinstance(v.op, ast.Not)):
                return True
            if isinstance(v, ast.Call) and isinstance(v.func, ast.Name) and v.func.id == 'bool' and len(v.args) == 1:
                return True
            if isinstance(v, ast.Name) and (mn, v.id) in bool_params:
                return True
            if isinstance(v, ast.Attribute) and isinstance(v.value, ast.Name) and v.value.id == 'self' and v.attr in pflds and pflds[v.attr][0] == 'bool' and v.attr not in stores:
                return True                       # a boolean the constructor fixed (and nothing else assigns)
            if isinstance(v, ast.IfExp):
                return is_boolish(mn, v.body) and is_boolish(mn, v.orelse)
            return False

        def kind(f):
            items = stores[f]
            vals = [(mn, v) for mn, v in items if not (isinstance(v, tuple) and v[0] == 'aug')]
            aug = any(isinstance(v, tuple) and v[0] == 'aug' for _, v in items)
            if any(v is None for _, v in vals):
                return 'int'
            if vals and not aug and all(is_boolish(mn, v) for mn, v in vals):
                return 'bool'
            if vals and all(isinstance(v, ast.Attribute) and v.attr in I.consts for _, v in vals) and not aug:
                return 'enum'
            if any(isinstance(v, ast.List) or (isinstance(v, ast.Call) and isinstance(v.func, ast.Name) and v.func.id == 'list') for _, v in vals):
                return 'list'
            if any(isinstance(v, ast.Subscript) and isinstance(v.slice, ast.Slice) for _, v in vals):
                return 'list'
            if vals and all(isinstance(v, ast.Attribute) and isinstance(v.value, ast.Name) and v.value.id == 'self' and v.attr in I.methods for _, v in vals):
                return 'other'
            if vals and all(isinstance(v, ast.Constant) and v.value is None for _, v in vals):
                return 'other'
            return 'int'
        kinds = {f: kind(f) for f in stores}
        s.kinds = kinds
        listf = [f for f, k in kinds.items() if k == 'list']
        # frame list = list field that receives the frame read in the loop
        frame_lists = set()
        for mn in reach:
            # locals of the method that alias a list field (data = self._data): an append through the alias is an append to the field
            alias = {}
            for n in ast.walk(I.methods[mn]):
                if isinstance(n, ast.Assign) and isinstance(n.value, ast.Attribute) and isinstance(n.value.value, ast.Name) and n.value.value.id == 'self' and n.value.attr in listf:
                    for t_ in n.targets:
                        if isinstance(t_, ast.Name):
                            alias[t_.id] = n.value.attr
            for n in ast.walk(I.methods[mn]):
                if isinstance(n, ast.Call) and isinstance(n.func, ast.Attribute) and n.func.attr == 'append' \
                        and isinstance(n.func.value, ast.Attribute) and isinstance(n.func.value.value, ast.Name) \
                        and n.func.value.value.id == 'self' and n.func.value.attr in listf \
                        and len(n.args) == 1 and not isinstance(n.args[0], ast.Tuple):
                    frame_lists.add(n.func.value.attr)
                elif isinstance(n, ast.Call) and isinstance(n.func, ast.Attribute) and n.func.attr == 'append' and isinstance(n.func.value, ast.Name) and n.func.value.id in alias \
                        and len(n.args) == 1 and not isinstance(n.args[0], ast.Tuple):
                    frame_lists.add(alias[n.func.value.id])
        # the one whose object is yielded as first component: decided dynamically; statically keep the appended ones
        tok_lists = [f for f in frame_lists]
        if len(tok_lists) != 1:
            # prefer the list that is sliced or compared with lengths
            raise AnalysisError('could not identify the frame buffer (candidates %s)' % sorted(tok_lists))
        s.frame_list = tok_lists[0]
        I.frame_list_field = s.frame_list
        s.intf = sorted(f for f, k in kinds.items() if k == 'int')
        s.keyf = sorted(f for f, k in kinds.items() if k in ('bool', 'enum'))
        s.listf = listf
        enum_fields = [f for f in s.keyf if kinds[f] == 'enum']
        s.enum_vals = {}
        for f in enum_fields:
            vals = set()
            for _, v in stores[f]:
                vals.add(I.consts[v.attr])
            s.enum_vals[f] = sorted(vals)
        # units: the counter incremented once per loop iteration is a position
        counter = None
        for n in ast.walk(s.loop):
            if isinstance(n, ast.AugAssign) and isinstance(n.target, ast.Attribute) and isinstance(n.op, ast.Add) \
                    and isinstance(n.value, ast.Constant) and n.value.value == 1 and n.target.attr in s.intf:
                counter = n.target.attr
        if counter is None:
            # the read and the position counter may live in a helper called from the loop: the counter is the integer field
            # incremented by 1 in the method that reads the data source
            for mn in reach:
                m_ = I.methods[mn]
                reads_src = any(isinstance(x, ast.Call) and isinstance(x.func, ast.Attribute) and x.func.attr == 'read' and isinstance(x.func.value, ast.Name)
                                and x.func.value.id in [a.arg for a in m_.args.args] for x in ast.walk(m_))
                if not reads_src:
                    continue
                for n in ast.walk(m_):
                    if isinstance(n, ast.AugAssign) and isinstance(n.target, ast.Attribute) and isinstance(n.op, ast.Add) \
                            and isinstance(n.value, ast.Constant) and n.value.value == 1 and n.target.attr in s.intf:
                        counter = n.target.attr
        posf = set([counter]) if counter else set()
        grew = True
        while grew:
            grew = False
            for f in s.intf:
                if f in posf:
                    continue
                for _, v in stores[f]:
                    if isinstance(v, ast.AST) and any(isinstance(x, ast.Attribute) and x.attr in posf for x in ast.walk(v)):
                        posf.add(f)
                        grew = True
        s.counter = counter
        s.POS = ['f:' + f for f in s.intf if f in posf] + ['P0', 'g:E', 'g:Fg']
        s.CNT = ['f:' + f for f in s.intf if f not in posf] + ['len', 'g:R']

    # ---------------------------------------------------------------- constructor
    def analyse_ctor(s, mode):
        """mode: int or None (symbolic).  -> (accept leaves, reject leaves [(path, exc)])"""
        I = s.I
        init = I.methods['__init__']
        pnames = [a.arg for a in init.args.args][1:]
        p0 = Path()
        p0.locs['self'] = ('opaque', 'self')
        defaults = init.args.defaults
        for nm in pnames:
            if nm == 'validator':
                p0.locs[nm] = ('validator',)
            elif nm == 'mode':
                p0.locs[nm] = LIN(C(mode)) if mode is not None else LIN(V('p:mode'))
            else:
                p0.locs[nm] = LIN(V('p:' + nm))
        for nm in PARAM_NAMES + ('validator', 'mode'):
            if nm not in pnames:
                raise AnalysisError('constructor parameter %r (public API) not found' % nm)
        leaves = I.block(init.body, p0)
        accept, rejects = [], []
        for q, sig in leaves:
            if sig is not None and sig[0] == 'raise':
                rejects.append((q, sig[1]))
            elif sig is None or sig[0] == 'return':
                accept.append(q)
            else:
                raise AnalysisError('unexpected control flow in constructor: %s' % (sig,))
        return accept, rejects

    # ---------------------------------------------------------------- atoms
    def build_atoms(s):
        PAR = ['p:' + x for x in PARAM_NAMES]
        ATOMS = {}
        IMPL = {}

        def addfam(name, expr, consts):
            prev = None
            for c in consts:          # increasing c: weaker and weaker
                nm = '%s<=%d' % (name, c)
                ATOMS[nm] = le(expr, C(c))
                if prev:
                    IMPL.setdefault(prev, []).append(nm)
                prev = nm
        for x in s.CNT:
            addfam(x, V(x), (0,))
            addfam('-' + x, scale(V(x), -1), (-1, 0))
        for x in s.POS:
            addfam('-' + x, scale(V(x), -1), (0, 1))
        for grp, others in ((s.CNT, s.CNT + PAR), (s.POS, s.POS)):
            for x in grp:
                for y in others:
                    if x == y:
                        continue
                    addfam('%s-%s' % (x, y), add(V(x), V(y), -1), (-1, 0, 1))
                    if y in PAR:
                        addfam('%s-%s' % (y, x), add(V(y), V(x), -1), (-1, 0, 1))
        for pz in s.POS:
            if pz == 'g:Fg':
                continue
            for c in (-1, 0, 1):
                ATOMS['%s+len-g:Fg==%d' % (pz, c)] = eq(add(add(V(pz), V('len')), V('g:Fg'), -1), C(c))
        s.ATOMS = ATOMS
        s.IMPL = IMPL

    def tight(s, atoms):
        implied = set()
        for a in atoms:
            stack = list(s.IMPL.get(a, []))
            while stack:
                b = stack.pop()
                if b not in implied:
                    implied.add(b)
                    stack += s.IMPL.get(b, [])
        return [a for a in sorted(atoms) if a not in implied]

    # ---------------------------------------------------------------- one run
    def run(s, mode, c04=False, verbose=False, _region=None):
        """full analysis for one concrete mode; returns a result dict (see end of method)"""
        t0 = time.time()
        I = s.I
        accept, rejects = s.analyse_ctor(mode)
        if not accept:
            raise AnalysisError('constructor accepts no parameter tuple for mode %r' % mode)
        if any(q.imprecise for q in accept):
            # a test of the constructor could not be evaluated (an opaque callable, a value of unknown kind): the parameter region the
            # loop analysis would start from is a guess -- nothing is decided from it
            raise AnalysisError('a constructor path is modelled imprecisely (%s); the accept region is not known' % next(str(q.imprecise)[:120] for q in accept if q.imprecise))
        # group accept leaves by numeric region
        groups = {}
        for q in accept:
            sig = tuple(sorted(show(c) for c in q.cons))
            groups.setdefault(sig, []).append(q)
        if len(groups) > 6:
            raise AnalysisError('constructor accept region splits into %d regions (more than the analysis runs separately)' % len(groups))
        if len(groups) != 1 and _region is None:
            # the constructor distinguishes cases of the parameters (a flag pre-computed from a comparison, a clamped value ...): the
            # loop analysis is run once per case, each with that case's constraints and field values, and the results are merged
            merged = None
            for gi, sig in enumerate(sorted(groups)):
                r_ = s.run(mode, c04=c04, verbose=verbose, _region=sig)
                if merged is None:
                    merged = r_
                    merged['accept_regions'] = [r_['accept_region']]
                else:
                    merged['obligations'] += r_['obligations']
                    merged['alarms'] += r_['alarms']
                    merged['leaves'] += r_['leaves']
                    merged['keys'] += r_['keys']
                    merged['rounds'] = max(merged['rounds'], r_['rounds'])
                    merged['wall_s'] = round(merged['wall_s'] + r_['wall_s'], 2)
                    merged['accept_regions'].append(r_['accept_region'])
                    for k_ in ('invariants', 'taint'):
                        merged[k_].update({'[case %d] %s' % (gi, kk): vv for kk, vv in r_[k_].items()})
            return merged
        ctor = groups[_region][0] if _region is not None else accept[0]
        params = list(ctor.cons)
        if c04:
            params.append(le(i0_, C(1)))
        pflds = dict(ctor.flds)
        # parameter fields must not hold anything the loop analysis cannot read
        s.discover_roles(pflds)
        s.build_atoms()
        strict = drop = None
        flagmap = {}
        for f, v in pflds.items():
            if v[0] == 'bool':
                flagmap[f] = v[1]
        s.mode = mode
        s.strict = bool(mode & 2)
        s.drop = bool(mode & 4)
        s.params = params
        s.pflds = pflds
        s.leaf_cache = {}
        s.leaf_seq = 0
        NUMV = ['f:' + f for f in s.intf] + ['len', 'P0', 'g:E', 'g:R', 'g:Fg']
        s.NUMV = NUMV

        # ---- initial state: arbitrary leftovers of a previous run (C20), then the pre-statements
        inits = s.initial_states()
        inv, taint, version = {}, {}, {}
        changed = [True]

        def atom_post(a, env):
            e, op = s.ATOMS[a]
            return (subst(e, env), op)

        def add_reach(k2, cons, env, tnt, points, leafid, srcver):
            if k2 not in inv:
                keep = set()
                for a in s.ATOMS:
                    c = atom_post(a, env)
                    if any(not holds_at(c, pt) for pt in points):
                        continue
                    if entails(cons, c):
                        keep.add(a)
                inv[k2] = keep
                taint[k2] = frozenset(tnt)
                version[k2] = 0
                changed[0] = True
                return
            dropped = False
            for a in list(inv[k2]):
                ck = (leafid, a)
                if leafid is not None and s.proved.get(ck) == srcver:
                    continue
                c = atom_post(a, env)
                if any(not holds_at(c, pt) for pt in points) or not entails(cons, c):
                    inv[k2].discard(a)
                    dropped = True
                elif leafid is not None:
                    s.proved[ck] = srcver
            if dropped:
                version[k2] += 1
                changed[0] = True
            if not (frozenset(tnt) <= taint[k2]):
                taint[k2] = taint[k2] | frozenset(tnt)
                version[k2] += 1
                changed[0] = True
        s.proved = {}
        for k0, cons0, env0, t0set in inits:
            add_reach(k0, cons0, env0, t0set, [], None, None)
        rounds = 0
        while changed[0]:
            changed[0] = False
            rounds += 1
            if rounds > 60:
                raise AnalysisError('Houdini did not converge in 60 rounds')
            for key in list(inv):
                pre = [s.ATOMS[a] for a in s.tight(inv[key])]
                srcver = (version[key],)
                for lf in s.leaves(key, taint[key]):
                    if lf.exit is not None:
                        continue
                    full = lf.cons + pre
                    ck = ('feas', lf.id)
                    if s.proved.get(ck) != 'yes':
                        if not feasible(full):
                            continue
                        s.proved[ck] = 'yes'     # invariants only weaken: once feasible, always feasible
                    pts = []
                    if lf.key2 in inv:
                        for pref in ('lo', 'hi', 'mid'):
                            pt = model(full, pref)
                            if pt is not None:
                                pts.append(pt)
                    add_reach(lf.key2, full, lf.env, lf.taint2, pts, lf.id, srcver)
        s.inv, s.taint, s.rounds = inv, taint, rounds
        t_inv = time.time() - t0
        obligations, alarms, nleaves = s.check_obligations(c04)
        # a path the interpreter modelled imprecisely (a branch on a value it does not know) may have made abstract states
        # "reachable" that are not: an obligation that fails on such a state is not a decided violation, even when the failing path
        # itself is precise.  With any imprecise path in the run, every failure of the run is reported as undecided.
        imp_ = None
        for lfs in s.leaf_cache.values():
            for lf in (lfs if isinstance(lfs, (list, tuple)) else [lfs]):
                why_ = getattr(lf, 'imprecise', None)
                # only an imprecision that made the interpreter GUESS the control flow (a test on a value it does not model) can
                # corrupt the invariants other paths are checked under; a second read, an append of something else than the frame, a
                # statement after the loop are local to their path (and are themselves what some obligations decide)
                if why_ and ('opaque' in str(why_) or 'stale' in str(why_)):
                    imp_ = why_
                    break
            if imp_:
                break
        if imp_:
            for al in alarms:
                if not al.get('imprecise'):
                    al['imprecise'] = 'another path of this run is modelled imprecisely (%s)' % (str(imp_)[:140])
        res = dict(mode=mode, c04=c04, rounds=rounds, keys=len(inv), atoms=len(s.ATOMS), leaves=nleaves,
                   obligations=obligations, alarms=alarms, wall_s=round(time.time() - t0, 2), wall_inv_s=round(t_inv, 2),
                   invariants={s.show_key(k): s.tight(v) for k, v in inv.items()},
                   taint={s.show_key(k): sorted(v) for k, v in taint.items()},
                   roles=dict(frame_list=s.frame_list, key_fields=s.keyf, int_fields=s.intf, positions=s.POS, counts=s.CNT,
                              generator=s.gen.name, counter=s.counter),
                   accept_region=[show(c) for c in ctor.cons], fm_queries=STATS['feasible'])
        return res

    def show_key(s, key):
        return ', '.join('%s=%s' % (k, v) for k, v in key)

    # ---------------------------------------------------------------- states
    def base_path(s):
        p = Path()
        p.locs['self'] = ('opaque', 'self')
        p.locs[s.src_param] = ('source',)
        # locals that the statements before the loop bind, once, to something that does not depend on the run's state -- the bound read
        # method of the source (read = data_source.read), a method of the tokenizer (step = self._process): visible in every iteration
        for st in getattr(s, 'pre_stmts', []):
            if isinstance(st, ast.Assign) and len(st.targets) == 1 and isinstance(st.targets[0], ast.Name) and isinstance(st.value, ast.Attribute) and isinstance(st.value.value, ast.Name):
                nm_, base_, attr_ = st.targets[0].id, st.value.value.id, st.value.attr
                rebound = sum(1 for x in ast.walk(s.gen) if isinstance(x, ast.Name) and x.id == nm_ and isinstance(x.ctx, ast.Store)) > 1
                if rebound:
                    continue
                if base_ == s.src_param and attr_ == 'read':
                    p.locs[nm_] = ('srcread',)
                elif base_ == 'self' and attr_ in s.I.methods:
                    p.locs[nm_] = ('method', attr_)
        p.flds = dict(s.pflds)
        for f in list(p.flds):
            if f in s.kinds:
                del p.flds[f]
        p.assume(s.params)
        return p

    def initial_states(s):
        """run the pre-statements of the generator from an arbitrary object state"""
        import itertools as it
        out = []
        I = s.I
        choices = []
        for f in s.keyf:
            if s.kinds[f] == 'bool':
                choices.append([(f, True), (f, False)])
            else:
                choices.append([(f, v) for v in s.enum_vals[f]])
        # stale key fields are only enumerated if the pre-statements leave them stale; first try with stale markers
        p = s.base_path()
        for f in s.keyf:
            p.flds[f] = ('stale', f)
        for f in s.intf:
            p.flds[f] = LIN(V('f:' + f))
        p.heap[1] = dict(len=V('len'), P0=V('P0'), V1=True, taint=True)
        p.assume([ge(V('len'), C(0))])
        p.flds[s.frame_list] = ('list', 1)
        for f in s.listf:
            if f != s.frame_list:
                p.heap[2] = dict(len=V('len2'), P0=None, V1=True, taint=False)
                p.flds[f] = ('list', 2)
        for f, k in s.kinds.items():
            if k == 'other':
                p.flds[f] = ('opaque', f)
        p.gh = dict(E=C(-1), R=C(0), Fg=C(-1), A=False)
        p.tainted = frozenset(['f:' + f for f in s.intf] + ['k:' + f for f in s.keyf])
        p.inp = 'pre'
        starts = [p]
        res = []
        for q, sig in I.block(s.pre_stmts, p):
            if sig is not None:
                raise AnalysisError('pre-statements of the generator end with %s' % (sig,))
            stale = [f for f in s.keyf if q.flds[f][0] == 'stale']
            combos = [[]]
            for f in stale:
                vals = [True, False] if s.kinds[f] == 'bool' else s.enum_vals[f]
                combos = [c + [(f, v)] for c in combos for v in vals]
            for combo in combos:
                r = q.clone()
                for f, v in combo:
                    r.flds[f] = ('bool', v) if isinstance(v, bool) else LIN(C(v))
                tnt = s.post_taint(r, written_only=True, stale=[f for f, _ in combo])
                fl = r.flds[s.frame_list]
                if fl[0] != 'list':
                    raise AnalysisError('frame buffer field %s is not a list after the pre-statements' % s.frame_list)
                h = r.heap[fl[1]]
                subcases = [r]
                if h['taint']:
                    tnt = tnt | {'list'}
                    subcases = []
                    for cs in ([eq(h['len'], C(0))], [ge(h['len'], C(1))]):
                        for v1 in (True, False):
                            r2 = r.clone()
                            r2.assume(cs)
                            r2.heap[fl[1]]['V1'] = v1
                            subcases.append(r2)
                for r2 in subcases:
                    for r3 in s.split_empty(r2):
                        k, env = s.post_key_env(r3, cut=False)
                        res.append((k, list(r3.cons), env, tnt))
        return res

    def post_taint(s, q, written_only=False, stale=()):
        t = set()
        for f in s.intf:
            v = q.flds.get(f)
            if v is None or v[0] != 'lin':
                t.add('f:' + f)
                continue
            if any(x in q.tainted for x in variables(v[1])):
                t.add('f:' + f)
        for f in s.keyf:
            if ('k:' + f) in q.tainted and f not in q.fld_written:
                t.add('k:' + f)
        for f in stale:
            t.add('k:' + f)
        fl = q.flds.get(s.frame_list)
        if fl and fl[0] == 'list' and q.heap[fl[1]].get('taint'):
            t.add('list')
        return frozenset(t)

    def split_empty(s, q):
        """decide emptiness of the final frame list, splitting the path if needed"""
        fl = q.flds[s.frame_list]
        if fl[0] != 'list':
            raise Unsupported('frame buffer field holds %s' % (fl,))
        L = q.heap[fl[1]]['len']
        if is_const(L):
            return [q]
        out = []
        for cs in ([eq(L, C(0))], [ge(L, C(1))]):
            r = q.clone()
            r.assume(cs)
            if feasible(r.cons):
                out.append(r)
        return out

    def post_key_env(s, q, cut):
        kd = {}
        for f in s.keyf:
            v = q.flds[f]
            if v[0] == 'bool':
                kd[f] = v[1]
            elif v[0] == 'lin' and s.I.concretise(q, v[1]) is not None:
                kd[f] = s.I.concretise(q, v[1])
            else:
                raise Unsupported('automaton/flag field %s does not hold a constant at the end of an iteration (%s)' % (f, v[:1]))
        fl = q.flds[s.frame_list]
        h = q.heap[fl[1]]
        L = h['len']
        empty = is_const(L) and cval(L) == 0 or (not is_const(L) and entails(q.cons, eq(L, C(0))))
        A = q.gh['A']
        if cut:
            A = True
        elif empty:
            A = False
        kd['A'] = A
        kd['V1'] = True if empty else h['V1']
        env = {}
        for f in s.intf:
            v = q.flds[f]
            env['f:' + f] = v[1] if v[0] == 'lin' else V('havoc%d' % next(s.I.fresh))
        env['len'] = L
        if empty or h['P0'] is None:
            env['P0'] = add(q.gh['Fg'], C(1)) if empty else V('havoc%d' % next(s.I.fresh))
        else:
            env['P0'] = h['P0']
        env['g:E'] = q.gh['E']
        env['g:R'] = q.gh['R']
        env['g:Fg'] = q.gh['Fg']
        return tuple(sorted(kd.items())), env

    def head_state(s, key, tnt):
        p = s.base_path()
        kd = dict(key)
        for f in s.keyf:
            v = kd[f]
            p.flds[f] = ('bool', v) if isinstance(v, bool) else LIN(C(v))
        for f in s.intf:
            p.flds[f] = LIN(V('f:' + f))
        p.heap[1] = dict(len=V('len'), P0=V('P0'), V1=kd['V1'], taint=('list' in tnt))
        p.flds[s.frame_list] = ('list', 1)
        for f in s.listf:
            if f != s.frame_list:
                p.heap[2] = dict(len=V('len2'), P0=None, V1=True, taint=False)
                p.flds[f] = ('list', 2)
        for f, k in s.kinds.items():
            if k == 'other':
                p.flds[f] = ('opaque', f)
        p.assume([ge(V('len'), C(0))])
        p.gh = dict(E=V('g:E'), R=V('g:R'), Fg=V('g:Fg'), A=kd['A'])
        p.tainted = frozenset(tnt)
        return p

    def leaves(s, key, tnt):
        ck = (key, tnt)
        if ck in s.leaf_cache:
            return s.leaf_cache[ck]
        out = []
        for inp in ('v', 'i', 'eos'):
            p = s.head_state(key, tnt)
            p.inp = inp
            p.valid = (inp == 'v')
            results = []
            for q, sig in s.I.block(s.loop.body, p):
                ex = None
                if sig is not None:
                    if sig[0] == 'break':
                        ex = 'break'
                        try:
                            for q2, sig2 in s.I.block(s.post_stmts, q.clone()):
                                if sig2 is not None and sig2[0] not in ('return',):
                                    raise Unsupported('control flow %s after the token loop' % (sig2,))
                                results.append((q2, 'break'))
                        except Unsupported as exc:
                            q.mark_imprecise('statements after the token loop are outside the modelled subset (%s)' % exc)
                            results.append((q, 'break'))
                        continue
                    elif sig[0] == 'return':
                        ex = 'return'
                    elif sig[0] == 'continue':
                        ex = None
                    elif sig[0] == 'raise':
                        ex = 'raise:' + sig[1]
                results.append((q, ex))
            for q, ex in results:
                # split on cut / emptiness so that the ghost update is determined
                subs = [q]
                dels = [e for e in q.events if e[0] == 'DELIVER']
                if dels and ex is None:
                    t = dels[-1][1]
                    subs = []
                    for cs, cutv in (([eq(t['e'], q.gh['Fg'])], True), ([lt(t['e'], q.gh['Fg'])], False), ([gt(t['e'], q.gh['Fg'])], False)):
                        r = q.clone()
                        r.assume(cs)
                        if feasible(r.cons):
                            subs.append((r, cutv))
                else:
                    subs = [(q, False)]
                for r, cutv in subs:
                    for r2 in (s.split_empty(r) if ex is None else [r]):
                        lf = Leaf()
                        s.leaf_seq += 1
                        lf.id = s.leaf_seq
                        lf.key, lf.inp = key, inp
                        lf.cons = list(r2.cons)
                        lf.events = list(r2.events)
                        lf.conds = list(r2.conds)
                        lf.exit = ex
                        lf.cut = cutv
                        lf.imprecise = r2.imprecise
                        lf.raised = ex[6:] if ex and ex.startswith('raise:') else None
                        fl = r2.flds[s.frame_list]
                        lf.final_list = fl[1] if fl[0] == 'list' else None
                        if ex is None:
                            lf.key2, lf.env = s.post_key_env(r2, cutv)
                            lf.taint2 = s.post_taint(r2)
                            lf.L2 = lf.env['len']
                            lf.A2 = dict(lf.key2)['A']
                        else:
                            lf.key2 = lf.env = None
                            lf.taint2 = frozenset()
                            lf.L2 = r2.heap[fl[1]]['len'] if fl[0] == 'list' else None
                            lf.A2 = None
                        out.append(lf)
        s.leaf_cache[ck] = out
        return out

    # ---------------------------------------------------------------- obligations
    def check_obligations(s, c04):
        obs = []
        alarms = []
        nleaves = 0
        strict, drop = s.strict, s.drop
        for key in s.inv:
            pre = [s.ATOMS[a] for a in s.tight(s.inv[key])]
            if not feasible(s.params + pre):
                continue
            # loop-head obligation (C02): the frame buffer is shorter than max_length
            s._ob(obs, alarms, ['C02'], 'loop-head: len(buffer) <= max_length - 1', s.params + pre + [ge(V('len'), C(0))],
                  le(V('len'), add(M_, C(-1))), key, '-', [], 'loop head', None)
            for lf in s.leaves(key, s.taint[key]):
                full = lf.cons + pre
                if not feasible(full):
                    continue
                nleaves += 1
                s.leaf_obligations(lf, full, key, obs, alarms, c04)
        s.prefix_consistency(obs, alarms)
        return obs, alarms, nleaves

    def prefix_consistency(s, obs, alarms):
        """C08: a token flushed at end of stream from abstract state sigma is *confirmed*: on any further frame the
        code either delivers a token with the same start, or keeps the buffer (same first frame) in a state from
        which the end-of-stream flush would again deliver.  Stated with the code's own end-of-stream leaves:
        D(sigma) = some delivering eos leaf applies; the eos leaves of a key partition its states, so D(sigma')
        holds iff no NON-delivering eos leaf of the successor key is jointly feasible."""
        pre_of = {}
        for key in s.inv:
            pre_of[key] = [s.ATOMS[a] for a in s.tight(s.inv[key])]
        rename_n = [0]
        for key in s.inv:
            pre = pre_of[key]
            if not feasible(s.params + pre):
                continue
            lvs = [lf for lf in s.leaves(key, s.taint[key]) if feasible(lf.cons + pre)]
            eosD = [lf for lf in lvs if lf.inp == 'eos' and any(e[0] == 'DELIVER' for e in lf.events)]
            if not eosD:
                continue
            steps = [lf for lf in lvs if lf.inp != 'eos' and lf.exit is None]
            for e in eosD:
                te = [x for x in e.events if x[0] == 'DELIVER'][0][1]
                for lf in steps:
                    joint = lf.cons + e.cons + pre
                    if not feasible(joint):
                        continue
                    dels = [x for x in lf.events if x[0] == 'DELIVER']
                    where = dels[0][1]['where'] if dels else ('%s:%d' % (s.relname, lf.conds[-1][0]) if lf.conds else '%s:%d' % (s.relname, s.loop.lineno))
                    conds = lf.conds
                    if dels:
                        s._ob(obs, alarms, ['C08'], 'prefix consistency: a token that end of stream would flush is later delivered with the same start', joint,
                              eq(dels[0][1]['s'], te['s']), key, lf.inp, conds, where, lf.imprecise or e.imprecise)
                        continue
                    # buffer kept: same first frame, and the flush would still deliver in the successor state
                    s._ob(obs, alarms, ['C08'], 'prefix consistency: a token that end of stream would flush is not abandoned by a later frame (buffer keeps its first frame)', joint,
                          [ge(lf.env['len'], C(1)), eq(lf.env['P0'], te['s'])], key, lf.inp, conds, where, lf.imprecise or e.imprecise)
                    k2 = lf.key2
                    if k2 not in s.inv:
                        continue
                    pre2 = pre_of[k2]
                    for n in s.leaves(k2, s.taint[k2]):
                        if n.inp != 'eos' or any(x[0] == 'DELIVER' for x in n.events):
                            continue
                        ncons = [c for c in n.cons if c not in s.params]
                        sub = [(subst(c[0], lf.env), c[1]) for c in ncons + pre2]
                        if feasible(joint + sub):
                            s._ob(obs, alarms, ['C08'], 'prefix consistency: after a further frame the end-of-stream flush still delivers the open token (it is confirmed)', joint + sub,
                                  False, key, lf.inp, conds + [(c[0], 'then at end of stream: ' + c[1], c[2]) for c in n.conds[-3:]], where, lf.imprecise or e.imprecise or n.imprecise)
                        else:
                            obs.append(dict(props=['C08'], rule='prefix consistency: after a further frame the end-of-stream flush still delivers the open token (it is confirmed)', ok=True,
                                            key=s.show_key(key), input=lf.inp, where=where))

    def _ob(s, obs, alarms, props, rule, cons, goal, key, inp, conds, where, imprecise, extra=()):
        """goal: a constraint, or a list of constraints (conjunction), or a bool"""
        goals = goal if isinstance(goal, list) else [goal]
        ok = True
        failed = None
        for g in goals:
            if isinstance(g, bool):
                if not g:
                    ok = False
                    failed = 'False'
                continue
            if not entails(cons + list(extra), g):
                ok = False
                failed = g
                break
        rec = dict(props=props, rule=rule, ok=ok, key=s.show_key(key) if key else '-', input=inp, where=where)
        obs.append(rec)
        if not ok:
            wit = None
            if failed is not None and failed != 'False':
                e, op = failed
                tries = [neg((e, '<='))] if op == '<=' else [neg((e, '<=')), neg((scale(e, -1), '<='))]
                for t in tries:
                    pt = model(cons + list(extra) + [t], 'lo')
                    if pt is not None:
                        wit = {k: v for k, v in sorted(pt.items(), key=lambda kv: str(kv[0]))}
                        break
            al = dict(rec)
            al.update(conds=[(l, t, r) for l, t, r in conds][-8:], failed=show(failed) if failed not in (None, 'False') else 'structural',
                      witness=wit, imprecise=imprecise)
            alarms.append(al)
        return ok

    def leaf_obligations(s, lf, full, key, obs, alarms, c04):
        strict, drop = s.strict, s.drop
        inp = lf.inp
        kd = dict(key)
        ob = lambda props, rule, goal, where, extra=(): s._ob(obs, alarms, props, rule, full, goal, key, inp, lf.conds, where, lf.imprecise, extra)
        evs = lf.events
        reads = [e for e in evs if e[0] == 'READ']
        appends = [e for e in evs if e[0] == 'APPEND']
        delivers = [e for e in evs if e[0] == 'DELIVER']
        mk = [e for e in evs if e[0] == 'MKTOKEN']
        loc0 = reads[0][1]['where'] if reads else '%s:%d' % (s.relname, s.loop.lineno)
        # ---- C08: exactly one read per iteration, before any append/deliver
        first_other = next((i for i, e in enumerate(evs) if e[0] in ('APPEND', 'DELIVER', 'BADAPPEND')), None)
        first_read = next((i for i, e in enumerate(evs) if e[0] == 'READ'), None)
        ob(['C08', 'C01'], 'exactly one source read per loop iteration, before any append/deliver', len(reads) == 1 and (first_other is None or first_read < first_other), loc0)
        # end of stream: the loop is left (no further read is reachable); otherwise it is not left
        if inp == 'eos':
            ob(['C08'], 'after end of stream the loop is left (end of stream requested once)', lf.exit in ('break', 'return'), loc0)
        else:
            ob(['C04', 'C08'], 'the loop is not left before end of stream', lf.exit is None, loc0)
        if lf.raised:
            ob(['C04'], 'no exception on an accepted configuration', False, loc0)
        # ---- appends
        ob(['C01'], 'at most one append per iteration, of the frame just read', len(appends) <= 1 and not any(e[0] == 'BADAPPEND' for e in evs),
           appends[0][1]['where'] if appends else loc0)
        for e in appends:
            d = e[1]
            if not d['first']:
                if d['P0'] is None:
                    ob(['C01'], 'append position known', False, d['where'])
                else:
                    ob(['C01'], 'frame appended at buffer position k has stream index start+k', eq(add(d['P0'], d['Lpre']), d['Fg']), d['where'])
            if not d['valid']:
                # R_post <= K (no initial phase) ; <= max(K, j0) when init_min > 1
                ob(['C03'], 'tolerated silence run <= max_continuous_silence (init_min<=1)', le(d['R'], K_), d['where'], [le(i0_, C(1))])
                ob(['C03'], 'tolerated silence run <= max(max_continuous_silence, init_max_silence) (init_min>1, K>=j0)', le(d['R'], K_), d['where'],
                   [ge(i0_, C(2)), ge(K_, j0_)])
                ob(['C03'], 'tolerated silence run <= max(max_continuous_silence, init_max_silence) (init_min>1, K<j0)', le(d['R'], j0_), d['where'],
                   [ge(i0_, C(2)), lt(K_, j0_)])
        for e in evs:
            if e[0] == 'DROPTRAIL':
                d = e[1]
                if d['R'] is not None:
                    ob(['C03', 'C04'], 'trailing-silence removal never removes a valid frame (removed <= trailing invalid run)', le(d['removed'], d['R']), d['where'])
            if e[0] == 'STASH':
                ob(['C08'], 'a token is handed over in the iteration that decides it (no accumulation)', False, e[1]['where'])
            if e[0] == 'YIELDOTHER':
                ob(['C01'], 'only (frames, start, end) tokens are yielded', False, e[1]['where'])
            if e[0] == 'TAINTREAD':
                ob(['C20'], 'no decision or delivered value depends on state left by an earlier run (%s: %s)' % (e[1]['var'], e[1]['what']), False, e[1]['where'])
        for e in evs:
            if e[0] == 'ORACLE':
                b = e[1]['bound_to']
                ob(['C03', 'C04', 'C02'], 'frame validity is judged by the validator given to the constructor (the callable itself, or its is_valid method)', b in ('', 'is_valid'), e[1]['where'])
        # every token built in this iteration is yielded in this iteration
        delivered_ids = {e[1]['id'] for e in delivers}
        for e in mk:
            if e[1]['id'] not in delivered_ids:
                ob(['C08', 'C04'], 'a token built in an iteration is yielded in that iteration', False, e[1]['where'])
        ob(['C01'], 'at most one token per iteration', len(delivers) <= 1, delivers[1][1]['where'] if len(delivers) > 1 else loc0)
        # ---- deliveries
        for e in delivers:
            t = e[1]
            w = t['where']
            if t['P0'] is None:
                ob(['C01'], 'start index of the delivered buffer known', False, w)
                continue
            ob(['C01'], 'reported start is the stream index of the first frame', eq(t['s'], t['P0']), w)
            ob(['C01'], 'end - start + 1 == number of frames', eq(t['e'], add(add(t['s'], t['n']), C(-1))), w)
            ob(['C01'], 'token has at least one frame', ge(t['n'], C(1)), w)
            ob(['C01'], 'start > end of the previous token (ordered, non-overlapping)', gt(t['s'], t['E']), w)
            ob(['C01'], 'start >= 0', ge(t['s'], C(0)), w)
            if inp == 'eos':
                ob(['C01'], 'end < stream length (end of stream)', lt(t['e'], t['Fg']), w)
            else:
                ob(['C01'], 'end <= index of the frame just read', le(t['e'], t['Fg']), w)
            ob(['C01'], 'the delivered buffer is detached from the tokenizer (no frame delivered twice)', lf.final_list != t['list'], w)
            ob(['C02'], 'len(token) <= max_length', le(t['n'], M_), w)
            ob(['C03'], 'token contains a valid frame', lt(t['R'], t['n']), w)
            ob(['C03'], 'token begins with a valid frame unless it continues a cut token', bool(t['V1'] or t['A']), w)
            iscut = lf.cut and inp != 'eos'
            if iscut:
                ob(['C04', 'C02'], 'a token decided without look-ahead (cut) has exactly max_length frames', eq(t['n'], M_), w)
            elif inp != 'eos':
                ob(['C08'], 'latency: decided at most max(K,0)+1 frames after its last frame (K>=0)', le(add(t['Fg'], t['e'], -1), add(K_, C(1))), w, [ge(K_, C(0))])
                ob(['C08'], 'latency: decided at most 1 frame after its last frame (K<=0)', le(add(t['Fg'], t['e'], -1), C(1)), w, [le(K_, C(0))])
            if drop and not iscut:
                ob(['C03'], 'with trailing-silence dropping a token that was not cut ends with a valid frame', eq(t['R'], C(0)), w)
            # C02 short-token rule
            if feasible(full + [lt(t['n'], m_)]):
                if strict or not t['A']:
                    ob(['C02'], 'no token shorter than min_length' + (' (strict mode)' if strict else ' unless it continues a cut token'), ge(t['n'], m_), w)
                else:
                    ob(['C02'], 'a short token starts right after the cut token', eq(t['s'], add(t['E'], C(1))), w, [lt(t['n'], m_)])
            else:
                obs.append(dict(props=['C02'], rule='len(token) >= min_length', ok=True, key=s.show_key(key), input=inp, where=w))
        # ---- C04: agreement with the reference step
        if c04:
            s.ref_agreement(lf, full, key, obs, alarms)

    def ref_agreement(s, lf, full, key, obs, alarms):
        kd = dict(key)
        inp = lf.inp
        n, r, g, start = V('len'), V('g:R'), kd['A'], V('P0')
        F = add(V('g:Fg'), C(1))
        appends = [e for e in lf.events if e[0] in ('APPEND', 'BADAPPEND')]
        delivers = [e for e in lf.events if e[0] == 'DELIVER']
        loc0 = '%s:%d' % (s.relname, s.loop.lineno)
        where = (delivers[0][1]['where'] if delivers else (appends[0][1]['where'] if appends else (('%s:%d' % (s.relname, lf.conds[-1][0])) if lf.conds else loc0)))
        for rc in ref_outcomes(n, r, g, start, F, inp, s.strict, s.drop):
            joint = full + rc['cons']
            if not feasible(joint):
                continue
            what = rc['what']
            ob = lambda rule, goal: s._ob(obs, alarms, ['C04'], 'reference segmentation [%s]: %s' % (what, rule), joint, goal, key, inp, lf.conds, where, lf.imprecise)
            ob('current frame kept iff the reference keeps it', (len(appends) >= 1) == rc['appended'])
            if rc['tok'] is None:
                ob('no token delivered where the reference delivers none', len(delivers) == 0)
            else:
                if not delivers:
                    ob('token delivered where the reference delivers one', False)
                else:
                    t = delivers[0][1]
                    ob('same start as the reference token', eq(t['s'], rc['tok'][0]))
                    ob('same end as the reference token', eq(t['e'], rc['tok'][1]))
            if lf.exit is None:
                ob('open-piece length after the step', eq(lf.L2, rc['n2']))
                ob('continuation status after the step', lf.A2 == rc['g2'])

    # ------------------------------------------------------------------ constructor contract (C02)
    def check_ctor(s):
        """accept/reject region of the constructor vs the spec region of C02 (Appendix B.1)"""
        obs, alarms = [], []
        spec = [ge(M_, C(1)), ge(m_, C(1)), le(m_, M_), le(K_, add(M_, C(-1))), le(i0_, add(M_, C(-1)))]
        spec_txt = 'max_length>=1, 1<=min_length<=max_length, max_continuous_silence<=max_length-1, init_min<=max_length-1, mode in {0,2,4,6}'
        init = s.I.methods['__init__']
        where0 = '%s:%d' % (s.relname, init.lineno)
        accepted_modes = []
        for mode in list(range(-2, 10)) + [None]:
            accept, rejects = s.analyse_ctor(mode)
            legal = mode in (0, 2, 4, 6)
            if mode is not None and accept and any(feasible(q.cons) for q in accept):
                accepted_modes.append(mode)
            for q in accept:
                if mode is None:
                    # symbolic mode: accepted only with mode pinned to a legal constant
                    mv = q.known.get('p:mode')
                    s._ob(obs, alarms, ['C02'], 'constructor accepts only mode in {0,2,4,6}', q.cons, mv in (0, 2, 4, 6), None, 'ctor', q.conds, where0, q.imprecise)
                    continue
                s._ob(obs, alarms, ['C02'], 'constructor: mode %d is %s' % (mode, 'accepted' if legal else 'rejected'), q.cons, legal, None, 'ctor', q.conds, where0, q.imprecise)
                if legal and mode == 0:
                    for f, v in q.flds.items():
                        if v[0] == 'validator':
                            b = v[1] if len(v) > 1 else ''
                            want_callable = any(k.startswith('callable') and val for k, val in q.sb.items())
                            okb = b in ('', 'is_valid')
                            s._ob(obs, alarms, ['C02', 'C03', 'C04'], 'the constructor binds the validity oracle to the given validator (itself if callable, else its is_valid method)', q.cons, okb, None, 'ctor',
                                  q.conds, where0, q.imprecise)
                if legal:
                    for c in spec:
                        s._ob(obs, alarms, ['C02'], 'constructor accepts only tuples inside the spec region (%s)' % show(c), q.cons, c, None, 'ctor mode=%d' % mode, q.conds, where0, q.imprecise)
                    # flags
                    for fname, bit in (('strict', 2), ('drop', 4)):
                        flags = [f for f, v in q.flds.items() if v[0] == 'bool']
                    bools = {f: v[1] for f, v in q.flds.items() if v[0] == 'bool' and f not in getattr(s, 'kinds', {})}
                    for f, v in q.flds.items():           # booleans kept as the components of a tuple field
                        if v[0] == 'tuple':
                            for i_, x in enumerate(v[1]):
                                if isinstance(x, tuple) and x and x[0] == 'bool':
                                    bools['%s[%d]' % (f, i_)] = x[1]
                    rec = dict(mode=mode, bool_fields=bools)
                    s.ctor_flags = getattr(s, 'ctor_flags', [])
                    s.ctor_flags.append(rec)
            for q, exc in rejects:
                last = q.events[-1][1]['where'] if q.events and q.events[-1][0] == 'RAISE' else where0
                neither = [k for k, v in q.sb.items() if not v]
                is_type_leaf = exc == 'TypeError' and len(neither) >= 1 and all(not v for v in q.sb.values())
                if is_type_leaf:
                    obs.append(dict(props=['C02'], rule='non-callable, non-DataValidator validator -> TypeError', ok=True, key='-', input='ctor', where=last))
                    continue
                s._ob(obs, alarms, ['C02'], 'constructor rejects with ValueError', q.cons, exc == 'ValueError', None, 'ctor', q.conds, last, q.imprecise)
                if mode is None or legal:
                    # a rejected tuple must lie outside the spec region
                    extra = []
                    if mode is None:
                        # spec region includes legal modes: reject leaf must exclude them or violate the numeric region
                        for lm in (0, 2, 4, 6):
                            jc = q.cons + spec + [eq(V('p:mode'), C(lm))]
                            s._ob(obs, alarms, ['C02'], 'no tuple inside the spec region is rejected (mode=%d)' % lm, jc, not feasible(jc), None, 'ctor', q.conds, last, q.imprecise)
                    else:
                        jc = q.cons + spec
                        s._ob(obs, alarms, ['C02'], 'no tuple inside the spec region is rejected (mode=%d)' % mode, jc, not feasible(jc), None, 'ctor', q.conds, last, q.imprecise)
        s._ob(obs, alarms, ['C02'], 'accepted modes are exactly {0,2,4,6}', [], sorted(accepted_modes) == [0, 2, 4, 6], None, 'ctor', [], where0, None)
        # flags derived from the mode: bit 1 = strict, bit 2 = drop (checked through the behaviour obligations of each mode;
        # here: the boolean fields written by the constructor must differ exactly as the bits do)
        flagrecs = {r['mode']: r['bool_fields'] for r in getattr(s, 'ctor_flags', [])}
        if set(flagrecs) >= {0, 2, 4, 6}:
            names = sorted(flagrecs[0])
            strict_f = [f for f in names if [flagrecs[mm][f] for mm in (0, 2, 4, 6)] == [False, True, False, True]]
            drop_f = [f for f in names if [flagrecs[mm][f] for mm in (0, 2, 4, 6)] == [False, False, True, True]]
            if strict_f and drop_f:
                s._ob(obs, alarms, ['C02', 'C03'], 'a boolean field equals bit 1 of mode (strict) and one equals bit 2 (drop)', [], True, None, 'ctor', [], where0, None)
            else:
                # how the mode bits are kept is a representation choice: what they DO is decided per mode by the behaviour
                # obligations (strict: C03 minimum length; drop: C01/C04 trailing silence), so nothing is demanded here
                s.notes = getattr(s, 'notes', []) + ['mode bits not found as boolean fields (representation not recognised); decided through the per-mode obligations only']
            s.flag_fields = dict(strict=strict_f, drop=drop_f)
        s._stale_copies(init, obs, alarms, where0)
        s._identity_on_numbers(obs, alarms, where0)
        return obs, alarms, spec_txt

    def _identity_on_numbers(s, obs, alarms, where0):
        """a value given by the caller (a parameter) is never compared with an integer constant by IDENTITY: `mode is self.X` holds
        for the small ints CPython caches and fails for an equal numpy integer, IntFlag member or large int, which `==` / `in` accept"""
        I = s.I
        n = 0
        for mn, m in I.methods.items():
            params = {a.arg for a in m.args.args[1:] + m.args.kwonlyargs}
            intlocals = set()
            for x in ast.walk(m):
                if isinstance(x, (ast.Assign, ast.AugAssign)):
                    v = x.value
                    tg = x.targets if isinstance(x, ast.Assign) else [x.target]
                    names = [y for y in ast.walk(v) if isinstance(y, (ast.Name, ast.Attribute, ast.Constant))]
                    if names and all((isinstance(y, ast.Constant) and isinstance(y.value, int) and not isinstance(y.value, bool)) or (isinstance(y, ast.Attribute) and y.attr in I.consts)
                                     or (isinstance(y, ast.Name) and (y.id in ('self', s.cls_name) or y.id in intlocals)) for y in names):
                        intlocals |= {t.id for t in tg if isinstance(t, ast.Name)}

            def is_int_const(e):
                return (isinstance(e, ast.Constant) and isinstance(e.value, int) and not isinstance(e.value, bool)) or (isinstance(e, ast.Attribute) and e.attr in I.consts
                        and isinstance(e.value, ast.Name) and e.value.id in ('self', s.cls_name)) or (isinstance(e, ast.Name) and e.id in intlocals)
            for x in ast.walk(m):
                if isinstance(x, ast.Compare) and len(x.ops) == 1 and isinstance(x.ops[0], (ast.Is, ast.IsNot)):
                    a, b = x.left, x.comparators[0]
                    n += 1
                    for p_, c_ in ((a, b), (b, a)):
                        if isinstance(p_, ast.Name) and p_.id in params and is_int_const(c_):
                            s._ob(obs, alarms, ['C02', 'C03'], 'a value given by the caller is compared with an integer constant by equality, not by identity (%s in %s): an equal integer of another kind (numpy, IntFlag, a large int) is the same mode'
                                  % (ast.unparse(x), mn), [], False, None, 'ctor', [], '%s:%d' % (s.relname, x.lineno), None)
        obs.append(dict(props=['C02'], rule='no identity comparison of a parameter with an integer constant (%d identity comparisons examined)' % n, ok=True, key='-', input='ctor', where=where0))

    def _stale_copies(s, init, obs, alarms, where0):
        """the bounds are PUBLIC attributes (tokenizer.max_length = ... between two streams is honoured: every decision reads the
        attribute): a private field computed from such a parameter in the constructor only, and read by the automaton, is a copy
        that goes stale when the attribute is assigned -- the automaton then applies a bound the object no longer shows"""
        params = {a.arg for a in init.args.args[1:] + init.args.kwonlyargs}
        public = {}
        for n in ast.walk(init):
            if isinstance(n, ast.Assign) and isinstance(n.value, ast.Name) and n.value.id in params:
                for t in n.targets:
                    if isinstance(t, ast.Attribute) and isinstance(t.value, ast.Name) and t.value.id == 'self' and not t.attr.startswith('_'):
                        public[n.value.id] = t.attr
        # parameters that are objects (called, or whose attributes are taken) are not bounds
        for n in ast.walk(init):
            if isinstance(n, ast.Attribute) and isinstance(n.value, ast.Name) and n.value.id in public:
                public.pop(n.value.id, None)
            if isinstance(n, ast.Call):
                for a in n.args:
                    if isinstance(a, ast.Name) and a.id in public and isinstance(n.func, ast.Name) and n.func.id in ('callable', 'isinstance'):
                        public.pop(a.id, None)
        PROPS = {'max_continuous_silence': ['C03', 'C04'], 'init_max_silent': ['C03', 'C04'], 'init_min': ['C03', 'C04'], 'min_length': ['C02', 'C04'], 'max_length': ['C02', 'C04']}
        reads = {}
        for mn in getattr(s, 'reach', []):
            for n in ast.walk(s.I.methods[mn]):
                if isinstance(n, ast.Attribute) and isinstance(n.value, ast.Name) and n.value.id == 'self' and isinstance(n.ctx, ast.Load):
                    reads.setdefault(n.attr, mn)
        nchecked = 0
        for n in ast.walk(init):
            if not (isinstance(n, ast.Assign) and isinstance(n.value, (ast.Compare, ast.BinOp, ast.BoolOp, ast.UnaryOp, ast.IfExp, ast.Call))):
                continue
            used = sorted({x.id for x in ast.walk(n.value) if isinstance(x, ast.Name) and x.id in public})
            for t in n.targets:
                if not (isinstance(t, ast.Attribute) and isinstance(t.value, ast.Name) and t.value.id == 'self' and t.attr.startswith('_')):
                    continue
                nchecked += 1
                used = [u for u in used if public[u] in PROPS]          # the numeric bounds only (a validator object is not a bound)
                if used and t.attr not in getattr(s, 'stores', {}) and t.attr in reads:
                    props = sorted({p_ for u in used for p_ in PROPS.get(u, ['C02', 'C03', 'C04'])})
                    s._ob(obs, alarms, props, 'the automaton reads the public bound %s itself, not a copy computed at construction (field %s = %s, read by %s): assigning the attribute between two streams is honoured'
                          % ('/'.join(public[u] for u in used), t.attr, ast.unparse(n.value)[:60], reads[t.attr]), [], False, None, 'ctor', [], '%s:%d' % (s.relname, n.lineno), None)
        obs.append(dict(props=['C02', 'C03'], rule='no decision of the automaton reads a construction-time copy of a public bound (%d private constructor fields examined)' % nchecked, ok=True, key='-', input='ctor', where=where0))
