"""Shared tokenizer analysis: 4 modes x {all accepted parameters, init_min<=1 with the C04 reference}
run in parallel processes and cached by the digest of the analysed source and of the analyser."""
import json
import os
import time
from concurrent.futures import ProcessPoolExecutor

from .common import VERIF, AnalysisError, analyser_digest
from . import tokenizer
from .absint import Unsupported

CONFIGS = [(m, c) for c in (False, True) for m in (0, 2, 4, 6)]


def _one(args):
    path, mode, c04 = args
    try:
        ta = tokenizer.TokenizerAnalysis(path)
    except (Unsupported, tokenizer.AnalysisError) as exc:
        return dict(mode=mode, c04=c04, error='%s: %s' % (type(exc).__name__, exc))
    try:
        res = ta.run(mode, c04=c04)
    except (Unsupported, tokenizer.AnalysisError) as exc:
        res = dict(mode=mode, c04=c04, error='%s: %s' % (type(exc).__name__, exc))
    except RecursionError as exc:
        res = dict(mode=mode, c04=c04, error='RecursionError: %s' % exc)
    if mode == 0 and not c04:
        # the constructor's accept / reject region is compared with the spec region whether or not the loop analysis could run
        # (a constructor that accepts tuples outside the region is decided on its own paths)
        try:
            obs, alarms, spec = ta.check_ctor()
            res['ctor'] = dict(obligations=obs, alarms=alarms, spec=spec, flag_fields=getattr(ta, 'flag_fields', None))
            if 'error' not in res:
                res['structure'] = dict(generator=ta.gen.name, entry=ta.entry, loop_line=ta.loop.lineno)
        except (Unsupported, tokenizer.AnalysisError, RecursionError) as exc:
            res['ctor_error'] = '%s: %s' % (type(exc).__name__, exc)
    return res


def _clean(o):
    if isinstance(o, dict):
        return {str(k): _clean(v) for k, v in o.items()}
    if isinstance(o, (list, tuple)):
        return [_clean(x) for x in o]
    if isinstance(o, (str, int, float, bool)) or o is None:
        return o
    return str(o)


def analyse(repo, use_cache=True):
    """-> dict(runs=[...], wall_s=..)   runs[i] has keys mode, c04, obligations, alarms, ... or error"""
    path = os.path.join(repo.root, 'auditok', 'core.py')
    import hashlib
    key = hashlib.sha256((repo.digest() + analyser_digest()).encode()).hexdigest()[:32]
    cdir = os.path.join(VERIF, '.cache')
    cfile = os.path.join(cdir, 'tok-%s.json' % key)
    if use_cache and os.path.exists(cfile):
        try:
            with open(cfile) as fp:
                d = json.load(fp)
            d['cached'] = True
            return d
        except Exception:
            pass
    t0 = time.time()
    jobs = [(path, m, c) for m, c in CONFIGS]
    with ProcessPoolExecutor(max_workers=min(8, os.cpu_count() or 2)) as ex:
        runs = list(ex.map(_one, jobs))
    d = _clean(dict(runs=runs, wall_s=round(time.time() - t0, 2), cached=False))
    try:
        os.makedirs(cdir, exist_ok=True)
        # keep the cache small: drop older entries
        old = sorted((os.path.getmtime(os.path.join(cdir, f)), f) for f in os.listdir(cdir) if f.startswith('tok-'))
        for _, f in old[:-6]:
            os.remove(os.path.join(cdir, f))
        tmp = cfile + '.%d.tmp' % os.getpid()
        with open(tmp, 'w') as fp:
            json.dump(d, fp)
        os.replace(tmp, cfile)
    except OSError:
        pass
    return d


def feed(rep, repo, prop, which='general', extra_filter=None):
    """copy the obligations/alarms tagged with `prop` into the report.
    which: 'general' (all accepted parameters), 'c04' (init_min<=1 + reference), 'both'"""
    d = analyse(repo)
    nruns = 0
    for r in d['runs']:
        if which == 'general' and r.get('c04'):
            continue
        if which == 'c04' and not r.get('c04'):
            continue
        tag = 'mode=%s%s' % (r['mode'], ' init_min<=1' if r.get('c04') else '')
        if 'error' in r:
            rep.unknown('tokenizer analysis [%s]: %s' % (tag, r['error']))
            continue
        nruns += 1
        for o in r['obligations']:
            if prop in o['props']:
                rep.obligations.append(dict(rule=o['rule'], ok=o['ok'], where=o['where']))
        imprecise_only = []
        groups = {}
        for a in r['alarms']:
            if prop not in a['props']:
                continue
            if a.get('imprecise'):
                imprecise_only.append(a)
                continue
            # the deciding branch: last conditions taken outside the generator wrapper
            branch = [c for c in a['conds'] if 'token is not None' not in c[1]][-3:]
            btxt = ' & '.join('%s is %s' % (c[1], c[2]) for c in branch) or 'loop head'
            site = '%s:%s' % (a['where'].split(':')[0], branch[-1][0]) if branch else a['where']
            groups.setdefault((a['rule'], btxt, site), []).append(a)
        for (rule, btxt, site), als in groups.items():
            a = als[0]
            construct = 'StreamTokenizer[%s]' % btxt
            states = sorted({'{%s} on %s' % (x['key'], x['input']) for x in als})
            msg = '%s -- not provable on the path [%s]; abstract state(s): %s [%s]' % (rule, btxt, '; '.join(states[:4]), tag)
            detail = dict(run=tag, branch_conditions=a['conds'], could_not_entail=a['failed'], abstract_witness=a['witness'],
                          yield_site=a['where'], abstract_states=states)
            rep.violations.append(dict(rule=rule, construct=construct, where=site, message=msg, detail=detail))
        for a in imprecise_only:
            rep.unknown('obligation "%s" at %s fails only on a path the interpreter models imprecisely (%s) [%s]' % (a['rule'], a['where'], a['imprecise'], tag))
        rep.analysed.setdefault('tokenizer_runs', []).append(dict(run=tag, keys=r['keys'], houdini_rounds=r['rounds'], candidate_atoms=r['atoms'],
                                                                  leaves=r['leaves'], wall_s=r['wall_s']))
        if len(rep.samples) < 6:
            inv = r.get('invariants', {})
            for k in list(inv)[:2]:
                rep.samples.append(dict(kind='inductive invariant', run=tag, partition=k, atoms=inv[k][:14]))
    # constructor obligations (accept/reject region, mode flags, oracle binding) carry their own property tags
    if which in ('general', 'both'):
        for r in d['runs']:
            ct = r.get('ctor')
            if not ct:
                continue
            for o in ct['obligations']:
                if prop in o['props']:
                    rep.obligations.append(dict(rule=o['rule'], ok=o['ok'], where=o['where']))
            for a in ct['alarms']:
                if prop not in a['props']:
                    continue
                if a.get('imprecise'):
                    rep.unknown('constructor obligation "%s" fails only on an imprecise path (%s)' % (a['rule'], a['imprecise']))
                    continue
                construct = 'StreamTokenizer.__init__[%s]' % ';'.join('%s=%s' % (c[1], c[2]) for c in a['conds'][-3:])
                rep.violations.append(dict(rule=a['rule'], construct=construct, where=a['where'], message='%s -- constructor path %s' % (a['rule'], a['input']),
                                           detail=dict(branch_conditions=a['conds'], could_not_entail=a['failed'], witness=a['witness'], spec_region=ct['spec'])))
            rep.analysed['constructor_spec_region'] = ct['spec']
            rep.analysed['mode_flag_fields'] = ct.get('flag_fields')
    rep.extra['tokenizer_cached'] = d.get('cached')
    rep.extra['tokenizer_wall_s'] = d.get('wall_s')
    if d['runs'] and 'roles' in d['runs'][0]:
        rep.analysed['discovered_roles'] = d['runs'][0]['roles']
        rep.analysed['constructor_accept_region'] = d['runs'][0]['accept_region']
    return d
